#!/usr/bin/env python3
"""Driver:  ./check <Cxx> quick|thorough     ./check baseline     ./check replay <file>     ./check all quick

Exit codes: 0 = every obligation serving the property was discharged on /repo's current working tree
            1 = a violation (stdout line `VIOLATION property=<id> replay=<path>`)
            2 = undecided (lost anchor, unsupported construct, rlimit, flaky solver on baseline text, tool failure)
"""
import concurrent.futures as cf
import difflib
import hashlib
import json
import os
import re
import subprocess
import sys
import time

HERE = os.path.dirname(os.path.abspath(__file__))
VERIF = os.path.dirname(HERE)
sys.path.insert(0, HERE)
import vgen
import vrun
from config import PROPS, KANI, REPO, COMMON_ASSUMPTIONS, REGRESSION_REPLAYS

BUILD = os.path.join(VERIF, 'build')
BASELINE = os.path.join(VERIF, 'baseline')
REPLAYS = os.path.join(VERIF, 'replays')
EVIDENCE = os.path.join(VERIF, 'evidence')
KNOWN = os.path.join(VERIF, 'known_findings.json')


def log(*a):
    print(*a, flush=True)


def load_known():
    if not os.path.exists(KNOWN):
        return {'findings': [], 'fixed': []}
    return json.load(open(KNOWN))


def load_baseline(unit):
    p = os.path.join(BASELINE, unit + '.json')
    if os.path.exists(p):
        return json.load(open(p))
    return None


# --------------------------------------------------------------------------------------------
# Verus units
# --------------------------------------------------------------------------------------------

class UnitResult:
    def __init__(self, unit):
        self.unit = unit
        self.undecided = []       # list of strings
        self.failures = []        # dicts: fn, labels, props, message, rendered, kind
        self.functions = []       # dicts: key,file,line,sha256,status,time_us,rlimit
        self.meta = None
        self.verus = None
        self.canary = None
        self.canary_ok = 0
        self.canary_total = 0
        self.changed = []         # function keys whose text differs from the baseline
        self.wall = 0.0
        self.lemmas = []
        self.seeds = []
        self.mutants = []



def atomic_write(path, text):
    """several checks may run at the same time and generate the same unit file: readers must never see a half-written file"""
    tmp = '%s.%d.tmp' % (path, os.getpid())
    with open(tmp, 'w') as fh:
        fh.write(text)
    os.replace(tmp, path)

def verus_fn_lookup(vfuncs, key):
    """find the entry of function-breakdown for a unit function key 'Type::name' or 'name'."""
    cands = [n for n in vfuncs if n.endswith('::' + key)]
    if len(cands) == 1:
        return cands[0]
    if not cands:
        # trait impls may be printed as impl&%N::name
        nm = key.split('::')[-1]
        cands = [n for n in vfuncs if n.endswith('::' + nm)]
        if len(cands) == 1:
            return cands[0]
    return None


def run_unit(unit, tier, seed, do_canary=True):
    t0 = time.time()
    ur = UnitResult(unit)
    tpl = os.path.join(VERIF, 'units', unit + '.vtpl')
    os.makedirs(BUILD, exist_ok=True)
    try:
        text, meta = vgen.generate(tpl, REPO)
        ctext, cmeta = vgen.generate(tpl, REPO, canary=True) if do_canary else (None, None)
    except vgen.GenError as ex:
        ur.undecided.append('extraction: ' + str(ex))
        ur.wall = time.time() - t0
        return ur
    except Exception as ex:  # tokenizer failure on edited source etc.
        ur.undecided.append('extraction crashed: %r' % (ex,))
        ur.wall = time.time() - t0
        return ur
    ur.meta = meta
    # restated predicates must be the same text as the originals modulo the fixed renaming
    try:
        from config import RESTATEMENTS
        import restate
        for (fa, na, fb, nb) in RESTATEMENTS.get(unit, []):
            msg = restate.compare(os.path.join(VERIF, 'units', fa), na, os.path.join(VERIF, 'units', fb), nb)
            ur.seeds.append({'restatement_check': '%s:%s == %s:%s modulo renaming' % (fa, na, fb, nb), 'identical': msg is None})
            if msg:
                ur.undecided.append('restatement check: ' + msg)
    except ImportError:
        pass
    main_path = os.path.join(BUILD, unit + '.rs')
    atomic_write(main_path, text)
    atomic_write(main_path + '.meta.json', json.dumps(meta, indent=1))
    jobs = {}
    with cf.ThreadPoolExecutor(max_workers=2) as ex:
        jobs['main'] = ex.submit(vrun.run_verus, main_path, None, None, 20, 6)
        if do_canary:
            cpath = os.path.join(BUILD, unit + '_canary.rs')
            atomic_write(cpath, ctext)
            jobs['canary'] = ex.submit(vrun.run_verus, cpath, None, None, 200, 6)
    res = jobs['main'].result()
    ur.verus = res
    base = load_baseline(unit)
    # which functions/items changed w.r.t. the baseline?
    if base:
        bf = base.get('functions', {})
        for f in meta['functions'] + meta['items']:
            k = f['key'] if f in meta['functions'] else '%s %s' % (f.get('container'), f['name'])
            if k not in bf or bf[k]['sha256'] != f['sha256']:
                ur.changed.append(k)
    else:
        ur.changed = ['<no baseline>']
    analyse_main(ur, res, meta, text)
    # rlimit / flaky retry: only when nothing but rlimit problems or failures on unchanged text
    if (ur.failures or any('rlimit' in u for u in ur.undecided)) and not ur.changed:
        res2 = vrun.run_verus(main_path, rlimit=30, seed=(seed + 17) % 1000, multiple_errors=20, threads=6)
        ur2 = UnitResult(unit)
        ur2.changed = ur.changed
        analyse_main(ur2, res2, meta, text)
        if not ur2.failures and not ur2.undecided:
            ur.failures, ur.undecided, ur.functions, ur.lemmas = [], [], ur2.functions, ur2.lemmas
            ur.verus = res2
            ur.seeds.append({'note': 'first run failed on baseline text, retry with rlimit 30 succeeded'})
    # PROOF REPAIR on changed text: a behaviour-preserving edit that introduces a local (hoisted field read, temporary) makes loop
    # invariants unprovable although nothing changed semantically.  Before anything is reported, the failing changed functions are
    # re-generated with the automatic invariants `x == PLACE` for their NEW immutable bindings `let x = PLACE;` (vgen.build_fn) and
    # verified again; a function is accepted only if Verus then discharges every one of its obligations (sound: the added
    # invariants are checked, not assumed).
    if ur.failures and ur.changed and base:
        try:
            failing = set(fl['fn'] for fl in ur.failures if fl['fn'])
            auto = {}
            for f in meta['functions']:
                if f['key'] in failing and f['key'] in ur.changed and f['key'] in base.get('functions', {}):
                    names = vgen.new_let_names(current_text(f), base['functions'][f['key']].get('text', ''))
                    if names:
                        auto[f['key']] = names
            if auto:
                rtext, rmeta = vgen.generate(tpl, REPO, auto_inv=auto)
                applied = dict((f['key'], f.get('auto_invariants')) for f in rmeta['functions'] if f.get('auto_invariants'))
                if applied:
                    rpath = os.path.join(BUILD, unit + '_repair.rs')
                    atomic_write(rpath, rtext)
                    res3 = vrun.run_verus(rpath, None, None, 20, 6)
                    ur3 = UnitResult(unit)
                    ur3.changed = ur.changed
                    analyse_main(ur3, res3, rmeta, rtext)
                    if not ur3.undecided:
                        still = set(fl['fn'] for fl in ur3.failures)
                        repaired = [k for k in applied if k in failing and k not in still]
                        if repaired:
                            ur.failures = [fl for fl in ur.failures if fl['fn'] not in repaired]
                            ok3 = dict((r['key'], r) for r in ur3.functions)
                            ur.functions = [ok3[r['key']] if r['key'] in repaired and r['key'] in ok3 else r for r in ur.functions]
                            ur.seeds.append({'note': 'proof repair: automatic invariants for new local bindings made the proof go through',
                                             'functions': dict((k, applied[k]) for k in repaired)})
        except Exception as ex:
            ur.seeds.append({'note': 'proof repair attempt crashed (ignored): %r' % (ex,)})
    if do_canary:
        cres = jobs['canary'].result()
        ur.canary = cres
        hit = set()
        for d in cres['diagnostics']:
            if vrun.classify_diag(d) == 'verification':
                prim, alll = vrun.diag_lines(d)
                for ln in prim:
                    if str(ln) in cmeta['canaries']:
                        hit.add(str(ln))
            elif vrun.classify_diag(d) == 'frontend' and not any('frontend' in u for u in ur.undecided):
                ur.undecided.append('canary file: frontend error: ' + d.get('message', '')[:200])
        ur.canary_total = len(cmeta['canaries'])
        ur.canary_ok = len(hit)
        for ln, (fk, where) in cmeta['canaries'].items():
            if ln not in hit and not ur.undecided:
                ur.undecided.append('vacuity canary did not fail: %s %s (contradictory requires/invariant or unreachable code)' % (fk, where))
    ur.wall = time.time() - t0
    return ur


def analyse_main(ur, res, meta, text):
    summ = res.get('summary')
    if summ is None:
        ur.undecided.append('verus produced no result object (rc=%s): %s' % (res['rc'], res['raw_err'][-600:]))
        return
    gen_lines = text.split('\n')
    for d in res['diagnostics']:
        kind = vrun.classify_diag(d)
        if kind == 'note':
            continue
        prim, alll = vrun.diag_lines(d)
        if kind == 'frontend':
            ur.undecided.append('frontend error (unsupported construct / compile error in generated file): %s @gen-lines %s'
                                % (d.get('message', '')[:300], sorted(prim)[:3]))
            continue
        f = None
        for ln in sorted(prim):
            f = vrun.fn_of_line(meta, ln)
            if f:
                break
        if f is None:
            # e.g. a trait-level ensures: the primary span is the clause in the prelude, the function is a secondary span
            for ln in sorted(alll):
                f = vrun.fn_of_line(meta, ln)
                if f:
                    break
        labels = []
        for ln in sorted(alll):
            labels.extend(meta['labels'].get(str(ln), []))
        labels = sorted(set(labels))
        if kind == 'rlimit':
            ur.undecided.append('rlimit exceeded in %s' % (f['key'] if f else sorted(prim)[:1]))
            continue
        props = sorted(set([l.split('.')[0] for l in labels])) if labels else (f['props'] if f else [])
        # 'script' = the failing obligation is a step of the proof script (precondition of a hint lemma / assertion inside a hint, or
        # inside a prelude lemma), not a contract clause and not the real code
        hint_lines = set(meta.get('hint_lines', []))
        msg = (d.get('message') or '').lower()
        script = (bool(prim) and prim <= hint_lines and ('precondition not satisfied' in msg or 'assertion failed' in msg)) or (f is None)
        ur.failures.append({'fn': f['key'] if f else None, 'file': f['file'] if f else None, 'line': f['line'] if f else None,
                            'labels': labels, 'props': props, 'message': d.get('message'),
                            'rendered': d.get('rendered', '')[:3000], 'in_prelude': f is None, 'script': script and not labels})
    if summ.get('encountered-vir-error') and not ur.undecided:
        ur.undecided.append('verus reported a VIR error')
    vf = res['functions']
    seen = set()
    for f in meta['functions']:
        name = verus_fn_lookup(vf, f['key'])
        st = None
        rec = {'key': f['key'], 'file': f['file'], 'line': f['line'], 'sha256': f['sha256'], 'props': f['props'],
               'rewrites': f['rewrites'], 'no_termination_claim': f['no_termination_claim']}
        if name:
            seen.add(name)
            rec.update({'verified': bool(vf[name]['success']), 'smt_time_us': vf[name]['time_us'], 'rlimit': vf[name]['rlimit']})
        else:
            rec.update({'verified': None})
        ur.functions.append(rec)
    for name, v in vf.items():
        if name not in seen:
            ur.lemmas.append({'name': name.split('::', 1)[-1], 'mode': v.get('mode'), 'verified': bool(v['success']),
                              'smt_time_us': v['time_us'], 'rlimit': v['rlimit']})
    if not res['diagnostics'] or summ.get('success'):
        pass
    if not summ.get('success') and not ur.failures and not ur.undecided:
        ur.undecided.append('verus failed without a classified diagnostic: ' + res['raw_err'][-400:])
    if summ.get('success'):
        for r in ur.functions:
            if r['verified'] is None:
                # verified as part of a successful run, but not listed individually (no SMT query needed)
                r['verified'] = True
                r['note'] = 'no individual SMT query reported'


# --------------------------------------------------------------------------------------------
# Kani
# --------------------------------------------------------------------------------------------

def prepare_cargo(crate):
    lock = os.path.join(REPO, 'Cargo.lock')
    dst = os.path.join(VERIF, crate, 'Cargo.lock')
    if os.path.exists(lock) and not os.path.exists(dst):
        open(dst, 'w').write(open(lock).read())


def run_kani(harnesses, playback=False, timeout=2400):
    """run the listed harnesses; returns {name: {status, failed_checks, time_s, ...}}.
    first pass: terse output, 8 harnesses in parallel; failing harnesses are re-run by the caller with playback=True
    (regular output: failed check descriptions + concrete values)."""
    prepare_cargo('kani')
    env = dict(os.environ, CARGO_NET_OFFLINE='true')
    cmd = ['cargo', 'kani', '-Z', 'function-contracts', '-Z', 'stubbing']
    if playback:
        cmd += ['--output-format', 'regular', '-Z', 'concrete-playback', '--concrete-playback=print']
    else:
        cmd += ['-j', '8', '--output-format', 'terse']
    for h in harnesses:
        cmd += ['--harness', h]
    t0 = time.time()
    try:
        p = subprocess.run(cmd, capture_output=True, text=True, timeout=timeout, cwd=os.path.join(VERIF, 'kani'), env=env)
        out = p.stdout + '\n' + p.stderr
        rc = p.returncode
    except subprocess.TimeoutExpired as ex:
        out = 'TIMEOUT'
        rc = 124
    res = {'_cmd': ' '.join(cmd), '_rc': rc, '_wall_s': time.time() - t0, '_tail': out[-3000:]}
    bodies = {}
    if playback:
        chunks = re.split(r'Checking harness ([A-Za-z0-9_:]+)\.\.\.', out)
        for i in range(1, len(chunks) - 1, 2):
            bodies[chunks[i].split('::')[-1]] = chunks[i + 1]
    else:
        cur = {}
        thread = None
        for line in out.split('\n'):
            m = re.match(r'Thread (\d+): ?(.*)$', line)
            if m:
                thread = m.group(1)
                rest = m.group(2)
                mm = re.match(r'Checking harness ([A-Za-z0-9_:]+)\.\.\.', rest)
                if mm:
                    cur[thread] = mm.group(1).split('::')[-1]
                    bodies.setdefault(cur[thread], '')
                    continue
                line = rest
            elif re.match(r'Checking harness ([A-Za-z0-9_:]+)\.\.\.', line):
                thread = 'single'
                cur[thread] = re.match(r'Checking harness ([A-Za-z0-9_:]+)\.\.\.', line).group(1).split('::')[-1]
                bodies.setdefault(cur[thread], '')
                continue
            if thread is not None and thread in cur:
                bodies[cur[thread]] += line + '\n'
    for short, body in bodies.items():
        st = 'UNKNOWN'
        if 'VERIFICATION:- SUCCESSFUL' in body:
            st = 'SUCCESS'
        elif 'VERIFICATION:- FAILED' in body:
            st = 'FAILED'
        failed = []
        for m in re.finditer(r'Check \d+: (\S+)\n\s*- Status: (FAILURE|UNDETERMINED)\n\s*- Description: "([^"]*)"', body):
            failed.append({'check': m.group(1), 'status': m.group(2), 'description': m.group(3)})
        for m in re.finditer(r'Failed Checks: (.*)', body):
            failed.append({'check': 'summary', 'status': 'FAILURE', 'description': m.group(1).strip()})
        tm = re.search(r'Verification Time: ([0-9.]+)s', body)
        cv = re.search(r'\*\* (\d+) of (\d+) cover properties satisfied', body)
        covers = [int(cv.group(1)), int(cv.group(2))] if cv else None
        pb = re.findall(r'vec!\[([0-9, ]*)\]', body) if playback else []
        res[short] = {'status': st, 'failed_checks': failed, 'time_s': float(tm.group(1)) if tm else None,
                      'covers': covers, 'playback_bytes': [[int(x) for x in v.split(',') if x.strip()] for v in pb],
                      'raw_tail': body[-2500:]}
    return res


def decode_vals(byte_vecs, types):
    vals = []
    for b, t in zip(byte_vecs, types):
        if t in ('isize', 'i64'):
            vals.append(int.from_bytes(bytes(b), 'little', signed=True))
        elif t in ('usize', 'u64', 'u8', 'u16', 'u32'):
            vals.append(int.from_bytes(bytes(b), 'little', signed=False))
        elif t == 'bool':
            vals.append(1 if b and b[0] else 0)
        else:
            vals.append(int.from_bytes(bytes(b), 'little', signed=True))
    return vals


def native_replay(case, args, timeout=240):
    """build (from /repo's working tree) and run the native replay binary; returns (rc, output)."""
    prepare_cargo('replay')
    env = dict(os.environ, CARGO_NET_OFFLINE='true')
    b = subprocess.run(['cargo', 'build', '--quiet'], capture_output=True, text=True, cwd=os.path.join(VERIF, 'replay'), env=env, timeout=timeout)
    if b.returncode != 0:
        return 2, 'replay crate failed to build:\n' + b.stderr[-1500:]
    exe = os.path.join(BUILD, 'replay-target', 'debug', 'ddo-replay')
    try:
        p = subprocess.run([exe, case] + [str(a) for a in args], capture_output=True, text=True, timeout=timeout)
        return p.returncode, (p.stdout + p.stderr)[-4000:]
    except subprocess.TimeoutExpired:
        return 124, 'native replay timed out after %ds (treated as a hang)' % timeout


# --------------------------------------------------------------------------------------------
# property-level check
# --------------------------------------------------------------------------------------------

def write_replay(prop, tag, payload):
    os.makedirs(REPLAYS, exist_ok=True)
    safe = re.sub(r'[^A-Za-z0-9_.-]', '_', tag)[:120]
    path = os.path.join(REPLAYS, '%s_%s.json' % (prop, safe))
    json.dump(payload, open(path, 'w'), indent=1)
    return path


def baseline_diff(unit, fkey, meta_fn):
    base = load_baseline(unit)
    if not base or fkey not in base.get('functions', {}):
        return None
    old = base['functions'][fkey].get('text', '')
    try:
        sf = open(os.path.join(REPO, meta_fn['file']), encoding='utf-8').read()
    except Exception:
        return None
    # re-extract the current text through the recorded hash is not possible; use the generator's span
    return old


def current_text(meta_fn):
    from extract import SourceFile
    sf = SourceFile(os.path.join(REPO, meta_fn['file']))
    s, e = sf.find_fn(meta_fn['container'], meta_fn['orig_name'])
    return sf.text[s:e]


def check_property(prop, tier, seed):
    t0 = time.time()
    cfg = PROPS[prop]
    known = load_known()
    violations = []        # (tag, payload, has_input)
    undecided = []
    foreign = []           # (unit result, failure): clause of another property failing in a function that serves this one
    known_hits = []
    unit_results = []
    dep_units = [u for u in cfg.get('dep_units', []) if u not in cfg.get('units', [])]
    units = cfg.get('units', []) + dep_units
    with cf.ThreadPoolExecutor(max_workers=max(1, min(6, len(units) or 1))) as ex:
        futs = [ex.submit(run_unit, u, tier, seed) for u in units]
        kfut = None
        if cfg.get('kani'):
            kfut = ex.submit(run_kani, cfg['kani'])
        unit_results = [f.result() for f in futs]
        kres = kfut.result() if kfut else {}

    obligations = 0
    discharged = 0
    samples = []
    functions_ev = []
    trusted = set(COMMON_ASSUMPTIONS)
    rewrites = {}
    smt_us = 0
    for ur in unit_results:
        if ur.undecided and (ur.changed or not ur.meta):
            # The verifier could not process the CHANGED text of this unit (unsupported construct, lost anchor, ...): the
            # obligation is undecided.  Fallback (bounded, labelled as such): the unit's native witness search looks for a
            # concrete failing input of the real code; a failing input replayed on the real code IS a violation.
            from config import WITNESS_SEARCH
            ws = WITNESS_SEARCH.get(ur.unit)
            if ws:
                rc_w, out_w = native_replay(ws[0], [str(a).replace('$SEED', str(seed + 1)) for a in ws[1]])
                if rc_w == 1:
                    payload = {'property': prop, 'unit': ur.unit, 'function': None,
                               'failed_obligation': {'labels': [], 'message': 'verifier could not process the changed text: ' + '; '.join(ur.undecided)[:600]},
                               'verifier': 'verus (undecided) + native witness search (bounded random search, NOT a proof step)',
                               'verifier_output': '; '.join(ur.undecided), 'changed_items_vs_baseline': ur.changed,
                               'failing_input': out_w.split('\n')[0],
                               'native_replay': {'case': ws[0], 'args': ws[1], 'output': out_w, 'confirmed_on_real_code': True},
                               'note': 'Deductive verification of the changed text is undecided; the violation is established by a concrete failing input found by the native witness search and replayed on the real code.'}
                    violations.append(('%s_witness' % ur.unit, payload, True))
        for u in ur.undecided:
            undecided.append('%s: %s' % (ur.unit, u))
        if ur.meta:
            for t in ur.meta['trusted_scan']:
                trusted.add('%s.vtpl: %s: %s' % (ur.unit, t['kind'], t['text']))
            for r, k in ur.meta['rewrites'].items():
                rewrites[r] = rewrites.get(r, 0) + k
        relevant_fail = []
        for fl in ur.failures:
            # a failure counts for this property when the failing clause/function is labelled with it, or when it occurs in a
            # dependency unit: the property's theorem ASSUMES that unit's contract (e.g. C01 assumes the Fringe contract),
            # so a collaborator that no longer meets its contract breaks the property for the configurations using it
            if prop in fl['props'] or (not fl['props']) or ur.unit in dep_units:
                if ur.unit in dep_units and prop not in fl['props']:
                    fl = dict(fl, message='%s  [dependency unit %s: a collaborator contract assumed by %s no longer holds]' % (fl['message'], ur.unit, prop))
                relevant_fail.append(fl)
        # a clause labelled for ANOTHER property fails inside a function that also serves this property: the remaining clauses of that
        # function were checked with the failed one assumed, so they are not established for this property: undecided (never a
        # violation of this property), unless the changed text is unchanged (then it is reported as flaky below anyway)
        fn_props = dict((r['key'], r['props']) for r in ur.functions)
        # modular verification: a function is checked against the CONTRACTS of its callees, so a failing callee voids the proofs of
        # its (transitive) callers: a failure in a function that does not itself serve this property, but is called -- directly or
        # not -- by one that does, makes the property undecided as well (e.g. _clear, called by _compile, for every diagram property)
        callee_of_serving = set()
        try:
            if ur.meta and ur.failures:
                gl = open(os.path.join(BUILD, ur.unit + '.rs')).read().split('\n')
                names = {}
                for f in ur.meta['functions']:
                    names.setdefault(f['name'], set()).add(f['key'])
                calls = {}
                for f in ur.meta['functions']:
                    body = '\n'.join(gl[f['gen_lines'][0] - 1:f['gen_lines'][1]])
                    calls[f['key']] = set(k for n, ks in names.items() for k in ks if k != f['key'] and re.search(r'(?<![A-Za-z0-9_])' + re.escape(n) + r'\s*(::<[^>]*>)?\(', body))
                work = [k for k, pr in fn_props.items() if prop in pr or not pr]
                while work:
                    k = work.pop()
                    for c in calls.get(k, ()):
                        if c not in callee_of_serving:
                            callee_of_serving.add(c)
                            work.append(c)
        except Exception:
            pass
        for fl in ur.failures:
            if fl in relevant_fail or fl['fn'] not in fn_props:
                continue
            if (prop in fn_props[fl['fn']] or fl['fn'] in callee_of_serving) and not match_known(known, prop, ur.unit, fl) \
                    and not any(k.get('kind') == 'obligation' and k.get('unit') == ur.unit and k.get('function') == fl['fn'] for k in known.get('findings', [])):
                foreign.append((ur, fl))
        for r in ur.functions + ur.lemmas:
            smt_us += r.get('smt_time_us') or 0
        for r in ur.functions:
            serves = (prop in r['props']) or not r['props'] or ur.unit in dep_units
            functions_ev.append(dict(r, unit=ur.unit, serves_property=serves))
        # an obligation = one contracted real function (all its VCs) or one prelude lemma of the unit
        failed_fns = set(fl['fn'] for fl in ur.failures)
        # functions whose only failures are recorded known findings are listed separately, not counted
        kf_fns = set(k.get('function') for k in known.get('findings', []) if k.get('kind') == 'obligation' and k.get('property') == prop and k.get('unit') == ur.unit)
        for r in ur.functions:
            if r['key'] in kf_fns and r['key'] in failed_fns:
                continue
            obligations += 1
            if r.get('verified') and r['key'] not in failed_fns:
                discharged += 1
        for l in ur.lemmas:
            obligations += 1
            if l['verified']:
                discharged += 1
        # failures that are only steps of the proof script (no contract clause of that function fails): the script does not apply to
        # the changed text.  That is NOT evidence of a violation (a harmless reordering does this): undecided, unless the unit's native
        # witness search produces a concrete failing input of the real code.
        fns_with_contract_failure = set(fl['fn'] for fl in relevant_fail if not fl.get('script'))
        script_only = [fl for fl in relevant_fail if fl.get('script') and fl['fn'] not in fns_with_contract_failure]
        if script_only and ur.changed:
            relevant_fail = [fl for fl in relevant_fail if fl not in script_only]
            from config import WITNESS_SEARCH
            ws = WITNESS_SEARCH.get(ur.unit)
            found = False
            if ws:
                rc_w, out_w = native_replay(ws[0], [str(a).replace('$SEED', str(seed + 1)) for a in ws[1]])
                if rc_w == 1:
                    found = True
                    payload = {'property': prop, 'unit': ur.unit, 'function': script_only[0]['fn'], 'file': script_only[0]['file'],
                               'failed_obligation': {'labels': [], 'message': 'proof script no longer applies (%s) and the native witness search found a failing input' % script_only[0]['message']},
                               'verifier': 'verus (proof-script step failed: undecided) + native witness search (bounded)',
                               'verifier_output': script_only[0]['rendered'], 'changed_items_vs_baseline': ur.changed,
                               'failing_input': out_w.split('\n')[0],
                               'native_replay': {'case': ws[0], 'args': ws[1], 'output': out_w, 'confirmed_on_real_code': True}}
                    violations.append(('%s_%s_witness' % (ur.unit, script_only[0]['fn']), payload, True))
            if not found:
                for fl in script_only:
                    undecided.append('%s: the proof script of %s no longer applies to the changed text (%s at a hint position); no contract clause fails and no failing input was found: undecided'
                                     % (ur.unit, fl['fn'], fl['message']))
        for fl in relevant_fail:
            # known finding?
            kf = match_known(known, prop, ur.unit, fl)
            if kf:
                known_hits.append(kf)
                continue
            if not ur.changed:
                undecided.append('%s: obligation of %s failed on text identical to the baseline (flaky proof, not a code change): %s'
                                 % (ur.unit, fl['fn'], fl['message']))
                continue
            payload = {'property': prop, 'unit': ur.unit, 'function': fl['fn'], 'file': fl['file'], 'line': fl['line'],
                       'failed_obligation': {'labels': fl['labels'], 'message': fl['message']},
                       'verifier': 'verus', 'verifier_output': fl['rendered'],
                       'changed_items_vs_baseline': ur.changed, 'failing_input': None,
                       'note': 'Verus gives no counterexample; the obligation was discharged on the baseline tree and fails on the current one.'}
            try:
                mf = [f for f in ur.meta['functions'] if f['key'] == fl['fn']]
                base = load_baseline(ur.unit)
                diffs = {}
                for ck in ur.changed:
                    cand = [f for f in ur.meta['functions'] if f['key'] == ck]
                    if cand and base and ck in base['functions']:
                        cur = current_text(cand[0])
                        diffs[ck] = '\n'.join(difflib.unified_diff(base['functions'][ck].get('text', '').split('\n'), cur.split('\n'),
                                                                   'baseline/' + ck, 'current/' + ck, lineterm=''))
                payload['diff_vs_baseline'] = diffs
            except Exception as ex:
                payload['diff_vs_baseline'] = 'unavailable: %r' % (ex,)
            key = '%s_%s' % (ur.unit, fl['fn'])
            prev = [v for v in violations if v[0] == key]
            if prev:
                prev[0][1].setdefault('more_failed_obligations', []).append({'labels': fl['labels'], 'message': fl['message'], 'verifier_output': fl['rendered']})
            else:
                # witness search: a native driver that looks for a concrete failing input of the real code
                from config import WITNESS_SEARCH
                ws = WITNESS_SEARCH.get(ur.unit)
                has_input = False
                if ws:
                    rc, out = native_replay(ws[0], [str(a).replace('$SEED', str(seed + 1)) for a in ws[1]])
                    payload['native_replay'] = {'case': ws[0], 'args': ws[1], 'output': out, 'confirmed_on_real_code': rc == 1}
                    if rc == 1:
                        payload['failing_input'] = out.split('\n')[0]
                        payload['note'] = 'Verus gives no counterexample; a failing input of the real code was found by the native witness search below.'
                        has_input = True
                violations.append((key, payload, has_input))
        if ur.meta:
            for f in ur.functions[:3]:
                samples.append({'obligation': 'all VCs of %s (%s:%s)' % (f['key'], f['file'], f['line']), 'verified': f.get('verified'),
                                'smt_time_us': f.get('smt_time_us')})

    # foreign-labelled failures: undecided for this property, with the unit's native witness search as fallback
    done_ws = set()
    for (ur, fl) in foreign:
        if not ur.changed:
            undecided.append('%s: obligation %s of %s failed on text identical to the baseline (flaky proof, not a code change)' % (ur.unit, fl['labels'], fl['fn']))
            continue
        if any(v[0].startswith('%s_' % ur.unit) for v in violations):
            continue      # this unit already reports a violation of this property
        from config import WITNESS_SEARCH
        ws = WITNESS_SEARCH.get(ur.unit)
        found = False
        if ws and ur.unit not in done_ws:
            done_ws.add(ur.unit)
            rc_w, out_w = native_replay(ws[0], [str(a).replace('$SEED', str(seed + 1)) for a in ws[1]])
            if rc_w == 1:
                found = True
                payload = {'property': prop, 'unit': ur.unit, 'function': fl['fn'], 'file': fl['file'],
                           'failed_obligation': {'labels': fl['labels'], 'message': 'a clause labelled for another property fails in %s, which also serves %s (%s); the native witness search found a failing input' % (fl['fn'], prop, fl['message'])},
                           'verifier': 'verus (clause of another property failed: undecided for this one) + native witness search (bounded)',
                           'verifier_output': fl['rendered'], 'changed_items_vs_baseline': ur.changed,
                           'failing_input': out_w.split('\n')[0],
                           'native_replay': {'case': ws[0], 'args': ws[1], 'output': out_w, 'confirmed_on_real_code': True}}
                violations.append(('%s_%s_witness' % (ur.unit, fl['fn']), payload, True))
        if not found:
            undecided.append('%s: clause %s (another property) of %s fails on the changed text; %s serves %s too (or is called by a function that does) and the dependent proofs were checked with the failed clause assumed: undecided for %s, no failing input found'
                             % (ur.unit, fl['labels'], fl['fn'], fl['fn'], prop, prop))

    # ---- Kani harnesses ----
    kani_ev = []
    if cfg.get('kani'):
        if kres.get('_rc') not in (0, 1) or not any(not k.startswith('_') for k in kres):
            undecided.append('kani: tool failure rc=%s: %s' % (kres.get('_rc'), kres.get('_tail', '')[-500:]))
        for h in cfg['kani']:
            hr = kres.get(h)
            bounded = h.startswith('bounded_')
            if hr is None:
                undecided.append('kani: harness %s produced no result' % h)
                continue
            kani_ev.append({'harness': h, 'status': hr['status'], 'time_s': hr['time_s'], 'bounded': bounded,
                            'covers': hr['covers']})
            if not bounded:
                obligations += 1
            if hr['status'] == 'SUCCESS':
                if not bounded:
                    discharged += 1
                # vacuity: every cover must be SATISFIED
                if hr['covers'] and hr['covers'][0] != hr['covers'][1]:
                    undecided.append('kani: only %d of %d cover properties of %s are satisfiable (vacuous harness?)' % (hr['covers'][0], hr['covers'][1], h))
                samples.append({'obligation': 'kani harness %s (full-domain symbolic inputs%s)' % (h, ', BOUNDED' if bounded else ''),
                                'status': 'SUCCESSFUL', 'time_s': hr['time_s']})
            elif hr['status'] == 'FAILED':
                # counterexample + native replay
                kcfg = KANI.get(h, {})
                pb = run_kani([h], playback=True).get(h, {})
                vals = None
                replay_out = None
                confirmed = False
                if kcfg.get('replay') and pb.get('playback_bytes'):
                    case, types = kcfg['replay']
                    vals = decode_vals(pb['playback_bytes'], types)
                    rc, replay_out = native_replay(case, vals)
                    confirmed = (rc == 1)
                fl = {'fn': h, 'labels': [c['description'] for c in hr['failed_checks'] if c['check'] != 'summary'], 'message': 'kani FAILED'}
                kf = match_known(known, prop, 'kani', fl)
                if kf:
                    known_hits.append(kf)
                    continue
                payload = {'property': prop, 'unit': 'kani', 'function': h, 'failed_obligation': hr['failed_checks'],
                           'verifier': 'kani/cbmc', 'verifier_output': hr['raw_tail'], 'failing_input': vals,
                           'native_replay': {'case': kcfg.get('replay', [None])[0], 'args': vals, 'output': replay_out,
                                             'confirmed_on_real_code': confirmed}}
                violations.append(('kani_' + h, payload, bool(vals is not None and confirmed)))
            else:
                undecided.append('kani: harness %s: status %s: %s' % (h, hr['status'], hr['raw_tail'][-300:]))

    # ---- recorded (unrepaired) findings whose witness is a native replay: still failing => KNOWN-FINDING line, exit code unaffected ----
    for kf in known.get('findings', []):
        if kf.get('property') == prop and kf.get('kind') == 'replay':
            rc_k, out_k = native_replay(kf['replay'][0], kf['replay'][1], timeout=300)
            if rc_k == 1 or rc_k == 124:
                known_hits.append('%s [witness: ddo-replay %s %s]' % (kf['what_fails'], kf['replay'][0], ' '.join(kf['replay'][1])))
            elif rc_k != 0:
                undecided.append('known-finding witness %s could not run: %s' % (kf['replay'][0], out_k[-300:]))

    # ---- bounded companions that run in every tier (deterministic, sequential, small budget): native searches over the statement of
    #      the property itself, for the parts no contract decides.  NOT proof steps: listed separately, never counted as discharged.
    quick_comp_ev = []
    for (case, args, what) in cfg.get('quick_companions', []):
        a = [str(x).replace('$SEED', str(seed + 1)) for x in args]
        rc_c, out_c = native_replay(case, a, timeout=600)
        quick_comp_ev.append({'case': case, 'args': a, 'bounded': True, 'what': what, 'found_failing_input': rc_c == 1,
                              'summary': out_c.strip().split('\n')[0][:300]})
        if rc_c == 1:
            payload = {'property': prop, 'unit': 'bounded-companion', 'function': case,
                       'failed_obligation': {'labels': [], 'message': 'bounded companion found a failing input of the real code: ' + what},
                       'verifier': 'native search (bounded, not a proof step)', 'verifier_output': out_c, 'failing_input': out_c.split('\n')[0],
                       'native_replay': {'case': case, 'args': a, 'output': out_c, 'confirmed_on_real_code': True}}
            violations.append(('companion_%s' % case, payload, True))
        elif rc_c != 0:
            undecided.append('bounded companion %s did not run to completion (rc=%s): %s' % (case, rc_c, out_c.strip()[-200:]))

    # ---- regression replays of the repaired genuine defects (concrete witnesses, run natively on the real code) ----
    regr_ev = []
    for (case, args, what) in REGRESSION_REPLAYS.get(prop, []):
        rc_r, out_r = native_replay(case, args, timeout=120)
        regr_ev.append({'case': case, 'args': args, 'what': what, 'holds': rc_r == 0})
        if rc_r == 1 or rc_r == 124:
            payload = {'property': prop, 'unit': 'regression-replay', 'function': case,
                       'failed_obligation': {'labels': [], 'message': 'a repaired genuine defect has returned: ' + what},
                       'verifier': 'native replay of the recorded witness (known_findings.json, fixed entry)', 'verifier_output': out_r,
                       'failing_input': '%s %s' % (case, ' '.join(args)),
                       'native_replay': {'case': case, 'args': args, 'output': out_r, 'confirmed_on_real_code': True}}
            violations.append(('regression_%s_%s' % (case, '_'.join(args)[:40]), payload, True))
        elif rc_r != 0:
            undecided.append('regression replay %s could not run: %s' % (case, out_r[-300:]))

    # ---- thorough extras ----
    thorough = {}
    if tier == 'thorough' and not undecided:
        thorough = run_thorough(prop, cfg, unit_results, seed)
        for u in thorough.get('undecided', []):
            undecided.append(u)
        for cv in thorough.get('companion_violations', []):
            payload = {'property': prop, 'unit': cv['unit'], 'function': None,
                       'failed_obligation': {'labels': [], 'message': 'bounded companion (native witness search) found a failing input of the real code'},
                       'verifier': 'native witness search (bounded)', 'verifier_output': cv['output'], 'failing_input': cv['output'].split('\n')[0],
                       'native_replay': {'case': cv['case'], 'args': cv['args'], 'output': cv['output'], 'confirmed_on_real_code': True}}
            violations.append(('%s_companion' % cv['unit'], payload, True))

    # ---- known findings that were expected but did not show up are *not* an error (a fix makes them disappear) ----
    wall = time.time() - t0
    ev = {
        'property_id': prop, 'tier': tier, 'seed': seed, 'level': 'proof',
        'coverage': {
            'obligations': obligations, 'discharged': discharged,
            'checker_cmd': 'verus build/<unit>.rs --error-format=json --output-json --time-expanded --multiple-errors 20  (units: %s); cargo kani --harness <h> (harnesses: %s)'
                           % (','.join(units) or '-', ','.join(cfg.get('kani', [])) or '-'),
            'trusted_base': sorted(trusted),
            'samples': samples[:12] or [{'obligation': 'none generated'}],
            'obligation_rule': 'one obligation = all verification conditions of one contracted real function, one prelude lemma, or one complete Kani harness; bounded Kani harnesses are listed separately and never counted',
            'functions_under_contract': functions_ev,
            'prelude_lemmas': sum(len(ur.lemmas) for ur in unit_results),
            'kani_harnesses': kani_ev,
            'rewrite_rules_fired': rewrites,
            'smt_time_s': round(smt_us / 1e6, 3),
            'unit_wall_s': {ur.unit: round(ur.wall, 2) for ur in unit_results},
            'vacuity_canaries': {ur.unit: '%d/%d failed as required' % (ur.canary_ok, ur.canary_total) for ur in unit_results},
            'changed_vs_baseline': {ur.unit: ur.changed for ur in unit_results if ur.changed},
            'unit_notes': {ur.unit: ur.seeds for ur in unit_results if ur.seeds},
            'not_decided': cfg.get('not_decided', []),
            'termination_not_claimed_for': [f['key'] for f in functions_ev if f.get('no_termination_claim')],
            'known_findings_reported': known_hits,
            'regression_replays_of_fixed_findings': regr_ev,
            'bounded_companions_every_tier': quick_comp_ev,
            'undecided': undecided,
            'thorough': thorough,
            'back_ends': {'verus': (unit_results[0].verus or {}).get('verus_version') if unit_results else None, 'smt': 'z3 (bundled with verus)',
                          'kani': '0.68.0 / cbmc 6.11' if cfg.get('kani') else None},
        },
        'assumptions': sorted(set(cfg.get('assumptions', []) + COMMON_ASSUMPTIONS)),
        'wall_s': round(wall, 2),
        'violations': len(violations),
    }
    os.makedirs(EVIDENCE, exist_ok=True)
    json.dump(ev, open(os.path.join(EVIDENCE, prop + '.json'), 'w'), indent=1)

    for kh in known_hits:
        log('KNOWN-FINDING: property=%s %s' % (prop, kh))
    log('[%s %s] obligations=%d discharged=%d violations=%d undecided=%d wall=%.1fs'
        % (prop, tier, obligations, discharged, len(violations), len(undecided), wall))
    if violations:
        for tag, payload, has_input in violations:
            path = write_replay(prop, tag, payload)
            log('VIOLATION property=%s replay=%s%s' % (prop, path, '' if has_input else ' no-failing-input-found'))
        return 1
    if undecided:
        for u in undecided:
            log('UNDECIDED: ' + u)
        return 2
    if obligations == 0:
        log('UNDECIDED: no obligation was generated')
        return 2
    return 0


def match_known(known, prop, unit, fl):
    for k in known.get('findings', []):
        if k['property'] != prop:
            continue
        if k.get('unit') != unit or k.get('function') != fl['fn']:
            continue
        want = set(k.get('labels', []))
        if want and not (want & set(fl.get('labels', []))):
            continue
        return '%s [%s %s %s]' % (k['what_fails'], unit, fl['fn'], ','.join(sorted(want)))
    return None


def run_thorough(prop, cfg, unit_results, seed):
    out = {'seeds': [], 'mutants': [], 'undecided': []}
    # (i) proof stability: three seeds, halved rlimit
    for ur in unit_results:
        main_path = os.path.join(BUILD, ur.unit + '.rs')
        for k in range(3):
            s = (seed * 7919 + k * 104729 + 1) % 100000
            r = vrun.run_verus(main_path, rlimit=5, seed=s, multiple_errors=2, threads=8)
            ok = bool(r.get('summary') and r['summary'].get('success'))
            out['seeds'].append({'unit': ur.unit, 'seed': s, 'rlimit': 5, 'all_verified': ok})
    # (ii) sensitivity self-test: every declared mutant of the extracted text must be rejected
    mcache_path = os.path.join(BUILD, 'mutant_cache.json')
    try:
        mcache = json.load(open(mcache_path))
    except Exception:
        mcache = {}
    for ur in unit_results:
        if not ur.meta:
            continue
        tpl = os.path.join(VERIF, 'units', ur.unit + '.vtpl')
        jobs = []
        with cf.ThreadPoolExecutor(max_workers=6) as ex:
            for mu in ur.meta['mutants']:
                def job(mu=mu):
                    try:
                        text, meta = vgen.generate(tpl, REPO, mutant=(mu['fn'], mu['name']))
                    except vgen.GenError as e:
                        return mu, None, 'generation failed: %s' % e
                    # results are cached by the hash of the complete generated text (template + includes + extracted real code +
                    # mutation): units shared by several properties are mutated once per tree, not once per property
                    hk = hashlib.sha256(text.encode()).hexdigest()
                    if hk in mcache:
                        return mu, mcache[hk][0], mcache[hk][1]
                    p = os.path.join(BUILD, '%s_mut_%s_%s.rs' % (ur.unit, re.sub(r'\W', '_', mu['fn']), mu['name']))
                    open(p, 'w').write(text)
                    r = vrun.run_verus(p, multiple_errors=1, threads=3)
                    try:
                        os.remove(p)
                    except OSError:
                        pass
                    kinds = [vrun.classify_diag(d) for d in r['diagnostics']]
                    killed = 'verification' in kinds
                    note = ('frontend error' if ('frontend' in kinds and not killed) else None)
                    if r.get('summary') is not None:
                        mcache[hk] = [killed, note]
                    return mu, killed, note
                jobs.append(ex.submit(job))
            for j in jobs:
                mu, killed, note = j.result()
                out['mutants'].append({'unit': ur.unit, 'fn': mu['fn'], 'mutant': mu['name'], 'killed': killed, 'note': note})
                if not killed:
                    # a surviving mutant is a weakness of the CONTRACT (reported in the evidence), not a fact about the tree under test:
                    # it does not change the exit code
                    out.setdefault('surviving_mutants', []).append('%s: mutant %s of %s survived (%s)' % (ur.unit, mu['name'], mu['fn'], note))
        try:
            # merge with what concurrent runs may have written meanwhile
            try:
                disk = json.load(open(mcache_path))
            except Exception:
                disk = {}
            disk.update(mcache)
            tmp = mcache_path + '.%d.tmp' % os.getpid()
            json.dump(disk, open(tmp, 'w'))
            os.replace(tmp, mcache_path)
        except Exception:
            pass
    # (iii) bounded companions: the native witness searches of the units, with a larger budget.  They are NOT proof steps and
    #       are reported separately; a concrete failing input found on the real code is a violation (returned to the caller).
    from config import WITNESS_SEARCH
    out['bounded_companions'] = []
    out['companion_violations'] = []
    done_companions = set()
    for ur in unit_results:
        ws = WITNESS_SEARCH.get(ur.unit)
        if not ws:
            continue
        args = [str(a).replace('$SEED', str(seed + 101)) for a in ws[1]]
        if len(args) > 1 and args[1].isdigit():
            args[1] = str(int(args[1]) * 4)
        if (ws[0], tuple(args)) in done_companions:
            continue
        done_companions.add((ws[0], tuple(args)))
        rc_w, out_w = native_replay(ws[0], args, timeout=1500)
        out['bounded_companions'].append({'unit': ur.unit, 'case': ws[0], 'args': args, 'bounded': True, 'found_failing_input': rc_w == 1,
                                          'summary': out_w.strip().split('\n')[0][:300]})
        if rc_w == 1:
            out['companion_violations'].append({'unit': ur.unit, 'case': ws[0], 'args': args, 'output': out_w})
        elif rc_w != 0:
            out['undecided'].append('%s: bounded companion %s did not run to completion (rc=%s): %s' % (ur.unit, ws[0], rc_w, out_w.strip()[-200:]))
    return out


# --------------------------------------------------------------------------------------------
# baseline
# --------------------------------------------------------------------------------------------

def record_baseline():
    os.makedirs(BASELINE, exist_ok=True)
    units = sorted(set(u for p in PROPS.values() for u in p.get('units', [])))
    rc = 0
    for u in units:
        ur = run_unit(u, 'quick', 0)
        if ur.undecided or ur.failures:
            log('baseline %s: NOT CLEAN: undecided=%s failures=%s' % (u, ur.undecided, [(f['fn'], f['labels'], f['message']) for f in ur.failures]))
            rc = 2
        from extract import SourceFile
        rec = {'unit': u, 'functions': {}}
        for f in ur.meta['functions']:
            rec['functions'][f['key']] = {'sha256': f['sha256'], 'file': f['file'], 'text': current_text(f)}
        for f in ur.meta['items']:
            rec['functions']['%s %s' % (f.get('container'), f['name'])] = {'sha256': f['sha256'], 'file': f['file']}
        json.dump(rec, open(os.path.join(BASELINE, u + '.json'), 'w'), indent=1)
        log('baseline %s: %d functions, %d items recorded' % (u, len(ur.meta['functions']), len(ur.meta['items'])))
    return rc


def main():
    if len(sys.argv) < 2:
        print(__doc__)
        return 2
    seed = int(os.environ.get('VERIF_SEED', '0') or 0)
    cmd = sys.argv[1]
    if cmd == 'baseline':
        return record_baseline()
    if cmd == 'replay':
        p = json.load(open(sys.argv[2]))
        print(json.dumps({k: p[k] for k in p if k not in ('verifier_output',)}, indent=1))
        print(p.get('verifier_output', ''))
        nr = p.get('native_replay')
        if nr and nr.get('case') and nr.get('args') is not None:
            rc, out = native_replay(nr['case'], nr['args'])
            print('native replay rc=%d\n%s' % (rc, out))
            return 1 if rc == 1 else 0
        return 0
    if cmd == 'unit':
        ur = run_unit(sys.argv[2], 'quick', seed, do_canary='--no-canary' not in sys.argv)
        for u in ur.undecided:
            log('UNDECIDED: ' + u)
        for f in ur.failures:
            log('FAIL %s %s %s\n%s' % (f['fn'], f['labels'], f['message'], f['rendered']))
        log('functions: ' + ', '.join('%s=%s' % (f['key'], f.get('verified')) for f in ur.functions))
        log('lemmas: %d  canaries %d/%d  changed=%s  wall=%.1fs' % (len(ur.lemmas), ur.canary_ok, ur.canary_total, ur.changed, ur.wall))
        return 0 if not (ur.undecided or ur.failures) else 1
    tier = sys.argv[2] if len(sys.argv) > 2 else (os.environ.get('VERIF_TIER') or 'quick')
    if cmd == 'all':
        worst = 0
        for p in sorted(PROPS):
            worst = max(worst, check_property(p, tier, seed))
        return worst
    if cmd not in PROPS:
        log('unknown property ' + cmd)
        return 2
    return check_property(cmd, tier, seed)


if __name__ == '__main__':
    sys.exit(main())

"""Which units / harnesses decide which property (see DESIGN.md sections 4 and 5)."""
REPO = '/repo'

COMMON_ASSUMPTIONS = [
    'Verus 0.2026.09.13 (bundled Z3) and rustc 1.98.1 front end are sound; Kani 0.68 / CBMC 6.11 are sound',
    'vstd specifications of Vec, Option, Result, HashMap and integer operations match the real std',
    'extraction rewrites R1..R10 of DESIGN.md 2.3 preserve the semantics of the extracted text (each application is counted in the evidence)',
]

# Kani harness -> how to replay a counterexample natively: (replay case, types of the kani::any() values in order)
KANI = {
    'c17_gap_not_nan_not_negative': {'replay': ('gap', ['isize', 'isize'])},
    'c17_gap_one_when_infinite': {'replay': ('gap', ['isize', 'isize'])},
    'c17_gap_zero_iff_equal': {'replay': ('gap', ['isize', 'isize'])},
    'c17_gap_le_one_same_sign': {'replay': ('gap', ['isize', 'isize'])},
    'c17_gap_cover': {},
}

PROPS = {
    'C13': {
        'units': ['width'],
        'kani': [],
        'not_decided': [],
        'assumptions': [],
    },
    'C17': {
        'units': [],
        'kani': ['c17_gap_not_nan_not_negative', 'c17_gap_one_when_infinite', 'c17_gap_zero_iff_equal',
                 'c17_gap_le_one_same_sign', 'c17_gap_cover'],
        'not_decided': [],
        'assumptions': ['CBMC models IEEE-754 binary32 conversion and division bit-precisely (round-to-nearest-even)',
                        'inputs range over all (lb, ub) with lb <= ub, as in the property statement'],
    },
}

//! C15 witness search (bounded): depth-free table models in which some variables are irrelevant for some states
//! (`is_impacted_by` == false: the neutral decision 0 is implied, the state is unchanged, the cost is 0), solved with solvers
//! using the Pooled diagram and with solvers using the plain diagrams, both compared with exhaustive enumeration.
//! A step bound (cutoff after a large number of polls) turns non-termination into a reported failure.
use ddo::*;
use crate::solverfuzz::Lcg;
use std::sync::atomic::{AtomicUsize, Ordering as AO};

const NS: usize = 3;
const ND: usize = 2;

#[derive(Clone, Debug)]
pub struct LTable { pub layers: usize, pub trans: Vec<Vec<Vec<Option<(usize, isize)>>>>, pub irrelevant: Vec<Vec<bool>> }
#[derive(Clone, Copy, Debug, PartialEq, Eq, Hash)]
pub struct LS { pub set: u8 }

impl LTable {
    /// the recorded witness of finding F5 (known_findings.json): a child of the root (state 1, reached by decision 1 of variable 0) is not
    /// impacted by variable 1, lingers in the pool, is merged in a later layer, and the frontier cut-set then contains the root itself
    pub fn f5_witness() -> LTable {
        let t = |a: Option<(usize, isize)>, b: Option<(usize, isize)>| vec![a, b];
        LTable { layers: 5, trans: vec![
            vec![t(Some((0, 0)), Some((1, 2))), t(Some((1, 0)), None), t(Some((2, 0)), None)],
            vec![t(Some((1, 2)), Some((2, -3))), t(Some((1, 0)), None), t(Some((2, -2)), Some((1, 2)))],
            vec![t(Some((0, 0)), None), t(Some((0, 1)), Some((1, -2))), t(Some((2, 0)), None)],
            vec![t(Some((0, 4)), Some((2, -2))), t(Some((1, 0)), None), t(Some((0, 4)), Some((2, 0)))],
            vec![t(Some((2, 1)), Some((1, -2))), t(Some((1, 0)), None), t(Some((2, -2)), Some((0, 4)))]],
            irrelevant: vec![vec![false, true, false], vec![false, true, false], vec![true, false, true], vec![false, true, false], vec![false, true, false]] }
    }
    pub fn random(r: &mut Lcg) -> LTable { Self::random_opt(r, false) }
    /// f5free: the root is impacted by variable 0 and every state is impacted by variable 1, so that no child of the root can linger in the pool
    pub fn random_opt(r: &mut Lcg, f5free: bool) -> LTable {
        let layers = 3 + r.next(3) as usize;
        let (mut trans, mut irrelevant) = (vec![], vec![]);
        for _ in 0..layers {
            let (mut l, mut irr) = (vec![], vec![]);
            for s in 0..NS {
                let protected = f5free && (trans.len() == 1 || (trans.is_empty() && s == 0));
                if r.next(3) == 0 && !protected { irr.push(true); l.push(vec![Some((s, 0)), None]); }
                else { irr.push(false);
                    let mut row = vec![];
                    for _ in 0..ND { if r.next(6) == 0 { row.push(None) } else { row.push(Some((r.next(NS as u64) as usize, r.next(9) as isize - 3))) } }
                    l.push(row); }
            }
            trans.push(l); irrelevant.push(irr);
        }
        LTable { layers, trans, irrelevant }
    }
    pub fn hstar(&self, l: usize, s: usize) -> Option<isize> {
        if l == self.layers { return Some(0); }
        let mut best = None;
        for d in 0..ND { if let Some((s2, c)) = self.trans[l][s][d] { if let Some(h) = self.hstar(l + 1, s2) { let v = c + h; if best.map_or(true, |b| v > b) { best = Some(v); } } } }
        best
    }
    /// replay a (possibly default-completed) solution: missing variables take the neutral decision 0
    pub fn replay(&self, sol: &[Decision]) -> Option<isize> {
        let mut ds = vec![None; self.layers];
        for d in sol { if d.variable.id() >= self.layers || ds[d.variable.id()].is_some() { return None; } ds[d.variable.id()] = Some(d.value); }
        let (mut s, mut v) = (0usize, 0isize);
        for l in 0..self.layers { let d = ds[l].unwrap_or(0) as usize; if d >= ND { return None; } let (s2, c) = self.trans[l][s][d]?; s = s2; v += c; }
        Some(v)
    }
}
impl Problem for LTable {
    type State = LS;
    fn nb_variables(&self) -> usize { self.layers }
    fn initial_state(&self) -> LS { LS { set: 1 } }
    fn initial_value(&self) -> isize { 0 }
    fn transition(&self, st: &LS, d: Decision) -> LS {
        let l = d.variable.id(); let mut set = 0u8;
        for s in 0..NS { if st.set >> s & 1 == 1 { if let Some((s2, _)) = self.trans[l][s][d.value as usize] { set |= 1 << s2; } } }
        LS { set }
    }
    fn transition_cost(&self, st: &LS, _n: &LS, d: Decision) -> isize {
        let l = d.variable.id(); let mut best = isize::MIN;
        for s in 0..NS { if st.set >> s & 1 == 1 { if let Some((_, c)) = self.trans[l][s][d.value as usize] { best = best.max(c); } } }
        best
    }
    fn next_variable(&self, depth: usize, _: &mut dyn Iterator<Item = &LS>) -> Option<Variable> { if depth < self.layers { Some(Variable(depth)) } else { None } }
    fn for_each_in_domain(&self, var: Variable, st: &LS, f: &mut dyn DecisionCallback) {
        for d in 0..ND { if (0..NS).any(|s| st.set >> s & 1 == 1 && self.trans[var.id()][s][d].is_some()) { f.apply(Decision { variable: var, value: d as isize }); } }
    }
    fn is_impacted_by(&self, var: Variable, st: &LS) -> bool { !(0..NS).all(|s| st.set >> s & 1 == 0 || self.irrelevant[var.id()][s]) }
}
struct LRelax;
impl Relaxation for LRelax {
    type State = LS;
    fn merge(&self, states: &mut dyn Iterator<Item = &LS>) -> LS { LS { set: states.fold(0, |a, s| a | s.set) } }
    fn relax(&self, _s: &LS, _d: &LS, _m: &LS, _dec: Decision, cost: isize) -> isize { cost }
}
struct LRank;
impl StateRanking for LRank { type State = LS; fn compare(&self, a: &LS, b: &LS) -> std::cmp::Ordering { a.set.cmp(&b.set) } }
struct StepBound { polls: AtomicUsize, max: usize }
impl Cutoff for StepBound { fn must_stop(&self) -> bool { self.polls.fetch_add(1, AO::SeqCst) + 1 >= self.max } }

fn solve(t: &LTable, pooled: bool, cache: bool, par: usize, nodup: bool, width: usize) -> (bool, Option<isize>, Option<Vec<Decision>>) {
    let (rlx, rk, w, dom) = (LRelax, LRank, FixedWidth(width), EmptyDominanceChecker::default());
    let cut = StepBound { polls: AtomicUsize::new(0), max: 20_000 };
    let mut f1 = SimpleFringe::new(MaxUB::new(&rk));
    let mut f2 = NoDupFringe::new(MaxUB::new(&rk));
    macro_rules! go { ($ty:ty, $($extra:expr),*) => {{
        let mut s = if nodup { <$ty>::custom(t, &rlx, &rk, &w, &dom, &cut, &mut f2 $(, $extra)*) } else { <$ty>::custom(t, &rlx, &rk, &w, &dom, &cut, &mut f1 $(, $extra)*) };
        let c = s.maximize(); (c.is_exact, c.best_value, s.best_solution())
    }}; }
    match (pooled, cache, par) {
        (true, false, 0) => go!(SeqNoCachingSolverPooled<LS>,), (true, true, 0) => go!(SeqCachingSolverPooled<LS>,),
        (false, false, 0) => go!(SeqNoCachingSolverLel<LS>,), (false, true, 0) => go!(SeqCachingSolverLel<LS>,),
        (true, false, n) => go!(ParNoCachingSolverPooled<LS>, n), (true, true, n) => go!(ParCachingSolverPooled<LS>, n),
        (false, false, n) => go!(ParNoCachingSolverLel<LS>, n), (false, true, n) => go!(ParCachingSolverLel<LS>, n),
    }
}

/// args: <seed> <number of instances> [par]
pub fn fuzz(args: &[&str]) -> bool {
    let seed: u64 = args.first().and_then(|s| s.parse().ok()).unwrap_or(1);
    let n: usize = args.get(1).and_then(|s| s.parse().ok()).unwrap_or(500);
    let with_par = args.iter().any(|s| *s == "par");
    let f5free = args.iter().any(|s| *s == "f5free");
    // skipf5: non-termination of a solver using Pooled is the recorded finding F5 (known_findings.json): counted, not reported,
    // so that every OTHER kind of C15 violation (wrong optimum, infeasible solution, non-termination without Pooled) is still found
    let skipf5 = args.iter().any(|s| *s == "skipf5");
    let mut f5_hits = 0usize;
    let mut r = Lcg(seed.wrapping_mul(1000003).wrapping_add(41));
    for it in 0..n {
        let t = LTable::random_opt(&mut r, f5free);
        let opt = t.hstar(0, 0);
        let mut f5_instance = false;
        for pooled in [true, false] { for cache in [false, true] { for nodup in [false, true] { for width in 1..=3usize {
            let pars: &[usize] = if with_par { &[0, 2] } else { &[0] };
            for &par in pars {
                let (exact, value, sol) = solve(&t, pooled, cache, par, nodup, width);
                let cfg = format!("{} cache={cache} threads={par} nodup={nodup} width={width}", if pooled { "Pooled" } else { "DefaultMDDLEL" });
                if !exact && pooled && skipf5 { f5_hits += 1; f5_instance = true; continue; }
                // second manifestation of F5: with a shared cache the parallel solver marks a threshold explored when a node is popped, so
                // the root sub-problem handed back by its own cut-set is silently dropped instead of being re-explored for ever: wrong
                // optimum with is_exact.  Only skipped for an instance on which the non-termination form of F5 has just been observed.
                if exact && pooled && cache && par > 0 && skipf5 && f5_instance && value != opt { f5_hits += 1; continue; }
                let bad = if !exact { Some("C15: the solver did not terminate within the step bound (20000 cutoff polls)".to_string()) }
                    else if value != opt { Some(format!("C15: optimum {:?} expected {:?}", value, opt)) }
                    else if let (Some(v), Some(s)) = (value, &sol) { if t.replay(s) != Some(v) { Some(format!("C15: the (default-completed) solution replays to {:?}, reported value {v}", t.replay(s))) } else { None } }
                    else { None };
                if let Some(m) = bad {
                    println!("failing long-arc instance found after {} instances: {cfg}", it + 1);
                    println!("  violated: {m}");
                    println!("  instance: {:?}", t);
                    return false;
                }
            }
        } } } }
    }
    println!("no failing long-arc instance among {n} random instances{}", if skipf5 { format!(" ({f5_hits} runs hit the recorded finding F5: Pooled does not terminate)") } else { String::new() });
    true
}

/// replay of the recorded witness of finding F5: holds iff the sequential solver with Pooled (width 1) terminates with the optimum
pub fn witness(_args: &[&str]) -> bool {
    let t = LTable::f5_witness();
    let opt = t.hstar(0, 0);
    let (exact, value, _sol) = solve(&t, true, false, 0, false, 1);
    println!("F5 witness (Pooled, width 1, long arc from a child of the root): is_exact={exact} value={:?} optimum={:?}", value, opt);
    if !exact { println!("  violated: C15: the solver did not terminate within the step bound (the frontier cut-set hands the root sub-problem back)"); return false; }
    if value != opt { println!("  violated: C15: wrong optimum"); return false; }
    true
}

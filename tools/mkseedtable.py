#!/usr/bin/env python3
"""Rewrites the table of DESIGN.md section 11 from /verif/seeded/*/meta.json (breaks / detected_by)."""
import json, os, re, glob
V = os.path.dirname(os.path.dirname(os.path.abspath(__file__)))
rows = []
for d in sorted(glob.glob(os.path.join(V, 'seeded', '*'))):
    mp = os.path.join(d, 'meta.json')
    if not os.path.exists(mp):
        continue
    m = json.load(open(mp))
    det = m.get('detected_by', '')
    status = det.split(' by ')[0] if ' by ' in det else det[:20]
    viol = re.findall(r'VIOLATION property=\S+ replay=/verif/replays/(\S+?)\.json( no-failing-input-found)?', det)
    how = '; '.join('%s%s' % (v[0], '' if v[1] else ' (+failing input)') for v in viol[:3])
    def cell(t, n):
        t = ' '.join(str(t).split()).replace('|', '\\|')
        return t[:n] + ('…' if len(t) > n else '')
    rows.append('| %s | %s | %s | %s | %s |' % (os.path.basename(d), m.get('property'), cell(m.get('breaks', ''), 230), status, cell(how, 200)))
table = '| seed | property | what it breaks | quick check | failing obligation(s) (replay file) |\n|---|---|---|---|---|\n' + '\n'.join(rows) + '\n'
p = os.path.join(V, 'DESIGN.md')
s = open(p).read()
a = s.index('<!-- SEEDTABLE-BEGIN -->') + len('<!-- SEEDTABLE-BEGIN -->\n')
b = s.index('<!-- SEEDTABLE-END -->')
open(p, 'w').write(s[:a] + table + s[b:])
print('%d seeds' % len(rows))

"""Locate and cut real items out of /repo source files (python3, no deps).

Item paths (as written in unit templates):
    <file> :: top :: fn NAME
    <file> :: impl TYPE :: fn NAME              (inherent impl of TYPE)
    <file> :: impl TRAIT for TYPE :: fn NAME
    <file> :: trait NAME :: fn NAME
    <file> :: top :: struct|enum|trait|type|const|macro NAME
Only depth-0 items of the file are searched (nested `mod` blocks, i.e. the test modules,
are never looked into).
"""
import re
import hashlib
from rustlex import code_mask, match_close, strip_comments


class ExtractError(Exception):
    pass


def sha(text):
    return hashlib.sha256(text.encode()).hexdigest()


class SourceFile:
    def __init__(self, path):
        self.path = path
        self.text = open(path, encoding='utf-8').read()
        self.mask = code_mask(self.text)
        self._top = None

    # -- depth-0 scanning -------------------------------------------------
    def top_items(self):
        """yield (start, header_end, end, header_text) for each brace- or semicolon-terminated
        depth-0 item (header = text from item start up to its first '{' or ';' at depth 0)."""
        if self._top is not None:
            return self._top
        t, m = self.text, self.mask
        n = len(t)
        items = []
        i = 0
        start = None
        while i < n:
            if not m[i] or t[i].isspace():
                i += 1
                continue
            if start is None:
                start = i
            c = t[i]
            if c in '([':
                i = match_close(t, m, i) + 1
                continue
            if c == '{':
                j = match_close(t, m, i)
                # a braced const-generic ARGUMENT inside an impl header, e.g. `impl<T, const C: u8> Mdd<T, {C}> where .. {`,
                # is not the item body: it is followed by `>` or `,`
                k = j + 1
                while k < n and t[k].isspace():
                    k += 1
                if k < n and t[k] in '>,' and re.match(r'\s*(unsafe\s+)?impl\b', t[start:i]):
                    i = j + 1
                    continue
                header = t[start:i]
                # `macro_rules! name { ... }` and items end at the brace; a trailing ';' is skipped
                items.append((start, i, j + 1, header))
                start = None
                i = j + 1
                continue
            if c == ';':
                items.append((start, i, i + 1, t[start:i]))
                start = None
                i += 1
                continue
            i += 1
        self._top = items
        return items

    def _clean_header(self, header):
        h = strip_comments(header)
        # drop attributes
        h = re.sub(r'#!?\[[^\]]*\]', ' ', h)
        return ' '.join(h.split())

    def find_container(self, spec):
        """spec: 'top' | 'impl TYPE' | 'impl TRAIT for TYPE' | 'trait NAME'.
        returns list of (body_start, body_end) ranges (exclusive of braces)."""
        spec = ' '.join(spec.split())
        if spec == 'top':
            return [(0, len(self.text))]
        res = []
        for (s, he, e, header) in self.top_items():
            h = self._clean_header(header)
            if self.text[he] != '{':
                continue
            if spec.startswith('trait '):
                name = spec.split()[1]
                if re.match(r'(pub(\([^)]*\))? )?(unsafe )?trait ' + re.escape(name) + r'\b', h):
                    res.append((he + 1, e - 1))
                continue
            if spec.startswith('impl '):
                if not re.match(r'(unsafe )?impl\b', h):
                    continue
                hh = re.sub(r'^(unsafe )?impl\s*', '', h)
                # strip leading generics
                if hh.startswith('<'):
                    d = 0
                    for k, ch in enumerate(hh):
                        if ch == '<':
                            d += 1
                        elif ch == '>':
                            d -= 1
                            if d == 0:
                                hh = hh[k + 1:].strip()
                                break
                hh = hh.split(' where ')[0].strip()
                want = spec[5:]
                if ' for ' in want:
                    wt, wty = [x.strip() for x in want.split(' for ')]
                    if ' for ' not in hh:
                        continue
                    ht, hty = [x.strip() for x in hh.split(' for ', 1)]
                    if _lead_ident(ht) == wt and _lead_ident(hty) == wty:
                        res.append((he + 1, e - 1))
                else:
                    if ' for ' in hh:
                        continue
                    if _lead_ident(hh) == want:
                        res.append((he + 1, e - 1))
        return res

    def find_fn(self, container, name):
        """returns (start, end) of the fn item (attributes/doc comments before it excluded)."""
        ranges = self.find_container(container)
        if not ranges:
            raise ExtractError('container not found: %s in %s' % (container, self.path))
        hits = []
        t, m = self.text, self.mask
        for (bs, be) in ranges:
            depth0 = 0 if container == 'top' else None
            for mt in re.finditer(r'(?<![A-Za-z0-9_])fn\s+' + re.escape(name) + r'(?![A-Za-z0-9_])', t[bs:be]):
                p = bs + mt.start()
                if not m[p]:
                    continue
                # must be at depth 0 of the container body
                if _depth(t, m, bs, p) != 0:
                    continue
                # extend left over qualifiers (pub, pub(crate), const, unsafe, async, extern "C")
                s = p
                while True:
                    mm = re.search(r'(pub(\s*\([^)]*\))?|const|unsafe|async|default)\s*$', t[bs:s])
                    if mm:
                        s = bs + mm.start()
                    else:
                        break
                # find end: first '{' or ';' at paren depth 0 after the fn name
                k = p
                end = None
                while k < be:
                    if m[k]:
                        c = t[k]
                        if c in '([':
                            k = match_close(t, m, k) + 1
                            continue
                        if c == '{':
                            end = match_close(t, m, k) + 1
                            break
                        if c == ';':
                            end = k + 1
                            break
                    k += 1
                if end is None:
                    raise ExtractError('cannot find end of fn %s' % name)
                hits.append((s, end))
        if len(hits) != 1:
            raise ExtractError('fn %s in %s of %s: %d matches (need exactly 1)' % (name, container, self.path, len(hits)))
        return hits[0]

    def find_top_item(self, kind, name):
        """kind in struct|enum|trait|type|const|macro|static ; returns (start, end) without leading attrs/docs."""
        hits = []
        for (s, he, e, header) in self.top_items():
            h = self._clean_header(header)
            if kind == 'macro':
                if re.match(r'macro_rules ?! ?' + re.escape(name) + r'\b', h):
                    hits.append((self._skip_attrs(s, he), e))
            else:
                if re.match(r'(pub(\([^)]*\))? )?' + kind + ' ' + re.escape(name) + r'\b', h):
                    hits.append((self._skip_attrs(s, he), e))
        if len(hits) != 1:
            raise ExtractError('%s %s in %s: %d matches (need exactly 1)' % (kind, name, self.path, len(hits)))
        return hits[0]

    def _skip_attrs(self, s, he):
        """advance s past leading attributes / doc comments of an item header."""
        t, m = self.text, self.mask
        i = s
        while i < he:
            if not m[i] or t[i].isspace():
                i += 1
                continue
            if t[i] == '#':
                k = t.index('[', i)
                i = match_close(t, m, k) + 1
                continue
            break
        return i


def _lead_ident(s):
    s = s.strip()
    # drop leading path qualifiers like crate::, and & / dyn
    mm = re.match(r'(?:[A-Za-z_][A-Za-z0-9_]*::)*([A-Za-z_][A-Za-z0-9_]*)', s)
    return mm.group(1) if mm else s


def _depth(t, m, start, pos):
    d = 0
    for k in range(start, pos):
        if m[k]:
            c = t[k]
            if c in '([{':
                d += 1
            elif c in ')]}':
                d -= 1
    return d

#!/usr/bin/env python3
"""Rewrites the as-built unit table of DESIGN.md section 4 from the templates (units/*.vtpl) and tools/config.py."""
import os, re, glob, sys
V = os.path.dirname(os.path.dirname(os.path.abspath(__file__)))
sys.path.insert(0, os.path.join(V, 'tools'))
import vgen
from config import PROPS
rows = []
for tpl in sorted(glob.glob(os.path.join(V, 'units', '*.vtpl'))):
    u = os.path.basename(tpl)[:-5]
    try:
        text, meta = vgen.generate(tpl, '/repo')
    except Exception as ex:
        rows.append('| %s | generation failed: %s | | | |' % (u, ex)); continue
    fns = meta['functions']
    files = sorted(set(f['file'].replace('ddo/src/', '') for f in fns))
    props = sorted(p for p, c in PROPS.items() if u in c.get('units', []))
    deps = sorted(p for p, c in PROPS.items() if u in c.get('dep_units', []) and u not in c.get('units', []))
    lemmas = len(re.findall(r'\bproof fn\b', vgen.strip_comments(text)))
    trusted = len([t for t in meta['trusted_scan'] if t['kind'] in ('assume_specification', 'external_body', 'assume', 'admit', 'axiom (bodiless proof fn)')])
    names = ', '.join(f['key'].split('::')[-1] for f in fns[:8]) + (', … (%d)' % len(fns) if len(fns) > 8 else '')
    rows.append('| %s | %d real fns: %s | %s | %d / %d | %s%s |' % (u, len(fns), names, ', '.join(files) or '(lemmas only)', lemmas, trusted, ' '.join(props), (' (dep: %s)' % ' '.join(deps)) if deps else ''))
table = '| unit | real functions under contract (extracted per run) | source files | proof fns / trusted items | serves |\n|---|---|---|---|---|\n' + '\n'.join(rows) + '\n'
p = os.path.join(V, 'DESIGN.md')
s = open(p).read()
a = s.index('<!-- UNITTABLE-BEGIN -->') + len('<!-- UNITTABLE-BEGIN -->\n')
b = s.index('<!-- UNITTABLE-END -->')
open(p, 'w').write(s[:a] + table + s[b:])
print('%d units' % len(rows))

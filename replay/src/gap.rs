use ddo::Solver;
use crate::StubSolver;

/// C17 on one pair (lb, ub) with lb <= ub.
pub fn replay(args: &[&str]) -> bool {
    let lb: isize = args[0].parse().unwrap();
    let ub: isize = args[1].parse().unwrap();
    let g = StubSolver { lb, ub }.gap();
    println!("gap(lb={lb}, ub={ub}) = {g}");
    let mut ok = true;
    if g.is_nan() { println!("  violated: NaN"); ok = false; }
    if g < 0.0 { println!("  violated: negative"); ok = false; }
    if ub == isize::MAX || lb == isize::MIN {
        if g != 1.0 { println!("  violated: infinite bound but gap != 1"); ok = false; }
    } else {
        if (g == 0.0) != (lb == ub) { println!("  violated: gap == 0 <=/=> lb == ub"); ok = false; }
        if (lb >= 0) == (ub >= 0) && !(g <= 1.0) { println!("  violated: same sign but gap > 1"); ok = false; }
    }
    ok
}

//! Native replay of counterexamples against the real crate (path dependency on /repo/ddo).
//! usage: ddo-replay <case> <args...>; exit 0 = property holds on this input, 1 = violated, 2 = usage.
use ddo::*;

mod gap;
mod fringe;
mod models;
mod parallel;
mod sched;
mod stores;
mod solverfuzz;
mod ddfuzz;
mod longarc;
mod viz;
mod widthfuzz;

fn main() {
    let args: Vec<String> = std::env::args().collect();
    if args.len() < 2 {
        eprintln!("usage: ddo-replay <case> <args...>");
        std::process::exit(2);
    }
    let rest: Vec<&str> = args[2..].iter().map(|s| s.as_str()).collect();
    let ok = match args[1].as_str() {
        "gap" => gap::replay(&rest),
        "nodup_fringe" => fringe::replay(&rest, true),
        "simple_fringe" => fringe::replay(&rest, false),
        "nodup_fringe_fuzz" => fringe::fuzz(&rest, true),
        "simple_fringe_fuzz" => fringe::fuzz(&rest, false),
        "par_abort_bounds" => parallel::replay_abort_bounds(&rest),
        "longarc_witness" => longarc::witness(&rest),
        "longarc_fuzz" => longarc::fuzz(&rest),
        "dd_fuzz" => ddfuzz::fuzz(&rest),
        "viz_fuzz" => viz::fuzz(&rest),
        "width_fuzz" => widthfuzz::fuzz(&rest),
        "solver_fuzz" => solverfuzz::fuzz(&rest),
        "cache_fuzz" => stores::cache_fuzz(&rest),
        "dominance_fuzz" => stores::dominance_fuzz(&rest),
        "par_abort_inflight" => sched::replay_abort_inflight(&rest),
        "par_with_nb_threads" => parallel::replay_with_nb_threads(&rest),
        other => { eprintln!("unknown case {other}"); std::process::exit(2) }
    };
    std::process::exit(if ok { 0 } else { 1 });
}

#[allow(dead_code)]
pub struct StubSolver { pub lb: isize, pub ub: isize }
impl Solver for StubSolver {
    fn maximize(&mut self) -> Completion { Completion { is_exact: true, best_value: None } }
    fn best_value(&self) -> Option<isize> { None }
    fn best_solution(&self) -> Option<Solution> { None }
    fn best_lower_bound(&self) -> isize { self.lb }
    fn best_upper_bound(&self) -> isize { self.ub }
    fn set_primal(&mut self, _: isize, _: Solution) {}
    fn explored(&self) -> usize { 0 }
}

#!/bin/sh
# Applies each HARMLESS edit stored in /verif/harmless (comments, renamed locals, reordered independent statements, equivalent
# rewrites) to /repo and runs every claimed check: none may print a VIOLATION line (exit 0 or 2 only).
cd "$(dirname "$0")/.." || exit 2
if [ -n "$(git -C /repo status --porcelain)" ]; then echo "/repo is not clean: refusing"; exit 2; fi
bad=0
for d in harmless/*.diff; do
  git -C /repo apply "$PWD/$d" || { echo "$d: does not apply"; continue; }
  for p in $(python3 -c "import sys; sys.path.insert(0,'tools'); from config import PROPS; print(' '.join(sorted(PROPS)))"); do
    out=$(timeout 900 ./check $p quick 2>&1); rc=$?
    if echo "$out" | grep -q "^VIOLATION"; then echo "FALSE ALARM: $d / $p"; echo "$out" | grep "^VIOLATION"; bad=1; fi
    printf "%s/%s:rc=%s " "$(basename $d .diff)" "$p" "$rc"
  done; echo
  git -C /repo checkout HEAD -- .
done
git -C /repo status --porcelain
exit $bad

"""Run Verus on a generated unit and classify the outcome (python3, no deps)."""
import json
import os
import re
import subprocess
import time

VERIF_FAIL_PATTERNS = [
    'postcondition not satisfied', 'precondition not satisfied', 'invariant not satisfied',
    'assertion failed', 'possible arithmetic underflow/overflow', 'possible division by zero',
    'decreases not satisfied', 'possible bit shift underflow/overflow', 'unreachable', 'recommendation not met',
    'could not prove termination', 'assertion failure', 'loop invariant', 'may be out of bounds', 'constructed value may fail to meet its declared type invariant',
    'failed precondition', 'cannot show', 'might not be allowed', 'unable to prove',
]
RLIMIT_PATTERNS = ['Resource limit (rlimit) exceeded', 'rlimit', 'timed out', 'resource limit']


def run_verus(path, rlimit=None, seed=None, multiple_errors=20, threads=4, timeout=900):
    cmd = ['verus', path, '--error-format=json', '--output-json', '--time-expanded',
           '--multiple-errors', str(multiple_errors), '--num-threads', str(threads)]
    if rlimit:
        cmd += ['--rlimit', str(rlimit)]
    if seed is not None:
        cmd += ['--smt-option', 'smt.random_seed=%d' % seed, '--smt-option', 'sat.random_seed=%d' % seed]
    t0 = time.time()
    try:
        p = subprocess.run(cmd, capture_output=True, text=True, timeout=timeout, cwd=os.path.dirname(path) or '.')
        out, err, rc = p.stdout, p.stderr, p.returncode
    except subprocess.TimeoutExpired as ex:
        out, err, rc = (ex.stdout or b'').decode() if isinstance(ex.stdout, bytes) else (ex.stdout or ''), 'TIMEOUT', 124
    wall = time.time() - t0
    res = {'cmd': ' '.join(cmd), 'rc': rc, 'wall_s': wall, 'diagnostics': [], 'functions': {}, 'summary': None, 'raw_err': ''}
    # stdout: json object (results)
    try:
        jo = json.loads(out[out.index('{'):]) if '{' in out else None
    except Exception:
        jo = None
    if jo:
        res['summary'] = jo.get('verification-results')
        try:
            for mod in jo['times-ms']['smt']['smt-run-module-times']:
                for f in mod.get('function-breakdown', []):
                    nm = f['function']
                    res['functions'][nm] = {'success': f.get('success'), 'time_us': f.get('time-micros'), 'rlimit': f.get('rlimit'),
                                            'mode': f.get('mode:')}
        except Exception:
            pass
        res['verus_version'] = jo.get('verus', {}).get('version')
    raw = []
    for line in err.split('\n'):
        line = line.strip()
        if not line:
            continue
        if line.startswith('{'):
            try:
                d = json.loads(line)
            except Exception:
                raw.append(line)
                continue
            if d.get('$message_type') == 'diagnostic' or 'message' in d:
                res['diagnostics'].append(d)
        else:
            raw.append(line)
    res['raw_err'] = '\n'.join(raw)[-4000:]
    return res


def classify_diag(d):
    """'verification' | 'rlimit' | 'note' | 'frontend'"""
    if d.get('level') not in ('error',):
        return 'note'
    msg = d.get('message', '')
    if msg.startswith('aborting due to'):
        return 'note'
    low = msg.lower()
    for p in RLIMIT_PATTERNS:
        if p.lower() in low:
            return 'rlimit'
    for p in VERIF_FAIL_PATTERNS:
        if p.lower() in low:
            return 'verification'
    return 'frontend'


def diag_lines(d):
    """(primary_lines, all_lines) as sets of generated-file line numbers."""
    prim, alll = set(), set()
    for sp in d.get('spans', []):
        rng = range(sp['line_start'], sp['line_end'] + 1)
        alll.update(rng)
        if sp.get('is_primary'):
            prim.update(rng)
    for ch in d.get('children', []):
        for sp in ch.get('spans', []):
            alll.update(range(sp['line_start'], sp['line_end'] + 1))
    return prim, alll


def fn_of_line(meta, line):
    for f in meta['functions']:
        a, b = f['gen_lines']
        if a <= line <= b:
            return f
    return None

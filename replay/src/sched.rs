//! C05 (parallel): a deterministic schedule, forced from user-side callbacks only, in which one worker aborts
//! while another worker holding a LARGER upper bound is still in flight and past its last cutoff poll.
//!   var0 = 0 -> sub-problem A (value 10, ub 100, optimum 70), var0 = 1 -> sub-problem B (value 12, ub 21).
//!   Worker X processes A; in the last layer of A's relaxed compilation (after its last poll) it arms the cutoff
//!   and waits until the cutoff has fired.  Worker Y processes B; it waits in next_variable until the cutoff is
//!   armed, polls, gets `stop`, and calls abort_search with B's upper bound.  X then finishes (inexact), enqueues
//!   its cut-set and leaves through `Aborted`.
use ddo::*;
use std::sync::atomic::{AtomicBool, Ordering as AO};
use std::time::Duration;

#[derive(Debug, Clone, Copy, PartialEq, Eq, Hash)]
pub struct S { depth: u8, tag: u8, prev: u8 }   // tag: 0 = A, 1 = B, 2 = root/unknown ; prev: last bit, 2 = unknown

pub struct Flags { a_merged: AtomicBool, armed: AtomicBool, fired: AtomicBool, b_started: AtomicBool }
pub struct Pb<'a> { f: &'a Flags }

fn cost(depth: u8, tag: u8, prev: u8, bit: isize) -> isize {
    let scale = if tag == 1 { 1 } else { 10 };
    match depth {
        0 => if bit == 0 { 10 } else { 12 },
        1 => if bit == 1 { 3 * scale } else { 0 },
        2 => { let c0 = if bit == 1 { 5 * scale } else { 0 }; if prev == 1 { 0 } else { c0 } }
        _ => if bit == 1 { scale } else { 0 },
    }
}
fn wait_until(flag: &AtomicBool) { let mut n = 0; while !flag.load(AO::SeqCst) && n < 3000 { std::thread::sleep(Duration::from_millis(5)); n += 1; } }

impl Problem for Pb<'_> {
    type State = S;
    fn nb_variables(&self) -> usize { 4 }
    fn initial_state(&self) -> S { S { depth: 0, tag: 2, prev: 2 } }
    fn initial_value(&self) -> isize { 0 }
    fn transition(&self, s: &S, d: Decision) -> S {
        if s.depth == 3 && s.tag == 0 && s.prev == 2 && self.f.a_merged.load(AO::SeqCst) && !self.f.armed.swap(true, AO::SeqCst) {
            // worker X: last layer of A's relaxed compilation, all its polls are behind it
            wait_until(&self.f.fired);
            std::thread::sleep(Duration::from_millis(300)); // let the other worker finish abort_search
        }
        let bit = d.value as u8;
        S { depth: s.depth + 1, tag: if s.depth == 0 { bit } else { s.tag }, prev: bit }
    }
    fn transition_cost(&self, s: &S, _n: &S, d: Decision) -> isize { cost(s.depth, s.tag, s.prev, d.value) }
    fn next_variable(&self, depth: usize, states: &mut dyn Iterator<Item = &S>) -> Option<Variable> {
        let v: Vec<S> = states.copied().collect();
        if depth == 1 && v.len() == 1 && v[0].tag == 1 { self.f.b_started.store(true, AO::SeqCst); wait_until(&self.f.armed); }   // worker Y, about to poll
        if depth == 1 && v.len() == 1 && v[0].tag == 0 { wait_until(&self.f.b_started); }   // worker X waits until Y holds B
        if depth < 4 { Some(Variable(depth)) } else { None }
    }
    fn for_each_in_domain(&self, variable: Variable, _s: &S, f: &mut dyn DecisionCallback) {
        f.apply(Decision { variable, value: 0 });
        f.apply(Decision { variable, value: 1 });
    }
}
pub struct Rlx<'a> { f: &'a Flags }
impl Relaxation for Rlx<'_> {
    type State = S;
    fn merge(&self, states: &mut dyn Iterator<Item = &S>) -> S {
        let v: Vec<S> = states.copied().collect();
        let tag = if v.iter().all(|s| s.tag == v[0].tag) { v[0].tag } else { 2 };
        if tag == 0 && v[0].depth == 3 { self.f.a_merged.store(true, AO::SeqCst); }
        S { depth: v[0].depth, tag, prev: 2 }
    }
    fn relax(&self, _s: &S, _d: &S, _m: &S, _dec: Decision, cost: isize) -> isize { cost }
    fn fast_upper_bound(&self, s: &S) -> isize { if s.tag == 1 { 9 } else { isize::MAX } }
}
pub struct Rk;
impl StateRanking for Rk { type State = S; fn compare(&self, a: &S, b: &S) -> std::cmp::Ordering { a.prev.cmp(&b.prev) } }
pub struct Cut<'a> { f: &'a Flags }
impl Cutoff for Cut<'_> {
    fn must_stop(&self) -> bool { if self.f.armed.load(AO::SeqCst) { self.f.fired.store(true, AO::SeqCst); true } else { false } }
}

pub fn replay_abort_inflight(_args: &[&str]) -> bool {
    let flags = Flags { a_merged: AtomicBool::new(false), armed: AtomicBool::new(false), fired: AtomicBool::new(false), b_started: AtomicBool::new(false) };
    let pb = Pb { f: &flags };
    let rlx = Rlx { f: &flags };
    let rk = Rk;
    let width = FixedWidth(1);
    let dom = EmptyDominanceChecker::default();
    let cut = Cut { f: &flags };
    let mut fringe = SimpleFringe::new(MaxUB::new(&rk));
    let mut solver = ParallelSolver::<S, DefaultMDDLEL<S>, EmptyCache<S>>::custom(&pb, &rlx, &rk, &width, &dom, &cut, &mut fringe, 2);
    let c = solver.maximize();
    let (lb, ub) = (solver.best_lower_bound(), solver.best_upper_bound());
    drop(solver);
    println!("  sub-problems left on the fringe at return: {}", fringe.len());
    let opt = 70;
    println!("forced schedule (abort while a larger-ub node is in flight): armed={} fired={} is_exact={} value={:?} lb={lb} ub={ub} optimum={opt}",
             flags.armed.load(AO::SeqCst), flags.fired.load(AO::SeqCst), c.is_exact, c.best_value);
    if !flags.fired.load(AO::SeqCst) { println!("  schedule could not be forced (cutoff never fired): replay inconclusive"); return true; }
    let mut ok = true;
    if lb > opt { println!("  violated: lb > optimum"); ok = false; }
    if ub < opt { println!("  violated: best_upper_bound() = {ub} < optimum = {opt} (ub < lb = {lb}) after a cut-off"); ok = false; }
    if c.is_exact && c.best_value != Some(opt) { println!("  violated: is_exact with a non-optimal value"); ok = false; }
    ok
}

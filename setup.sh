#!/bin/sh
# offline setup: create build dir, copy the lock file next to the two helper crates, pre-build the native replay crate
cd "$(dirname "$0")" || exit 1
export CARGO_NET_OFFLINE=true
mkdir -p build evidence replays
cp /repo/Cargo.lock kani/Cargo.lock 2>/dev/null
cp /repo/Cargo.lock replay/Cargo.lock 2>/dev/null
(cd replay && cargo build --quiet 2>&1 | tail -3)
exit 0

"""Mechanical check that a spec function restated in another vocabulary is the SAME text modulo a fixed identifier renaming.

The diagram units cannot include inc_dp.vinc (both sides declare Problem, Relaxation, CompilationInput ...), so the solver-side
predicates (dd_post, cutset_ok, ...) are restated with the suffix _sem over the trait DpSem.  A theorem about the restatement is
a theorem about the original only if the two texts are identical modulo the renaming: that is checked here, token for token
(comments and white space ignored), on every run."""
import re, os
from rustlex import strip_comments

RENAME = {'sp_opt': 'sp_opt_sem', 'sp_exact': 'sp_exact_sem', 'cutset_struct': 'cutset_struct_sem', 'cutset_ok': 'cutset_ok_sem',
          'cutset_in': 'cutset_in_sem', 'cutset_witness': 'cutset_witness_sem', 'ub_valid': 'ub_valid_sem', 'dd_post': 'dd_post_sem',
          'Problem': 'DpSem'}

def spec_fn_text(path, name):
    """text of `spec fn name ... { body }` (signature + body) in file path, comments stripped; None if absent."""
    t = strip_comments(open(path, encoding='utf-8').read())
    m = re.search(r'\bspec fn\s+' + re.escape(name) + r'\b', t)
    if not m:
        return None
    i = t.index('{', m.end())
    # the first '{' after the signature that is at paren depth 0
    k, d = m.end(), 0
    while k < len(t):
        c = t[k]
        if c in '([':
            d += 1
        elif c in ')]':
            d -= 1
        elif c == '{' and d == 0:
            break
        k += 1
    i = k
    d = 0
    j = i
    while j < len(t):
        if t[j] == '{':
            d += 1
        elif t[j] == '}':
            d -= 1
            if d == 0:
                break
        j += 1
    return t[m.start():j + 1]

def tokens(text):
    return re.findall(r'[A-Za-z_][A-Za-z0-9_]*|\d+|==>|<==>|&&&|\|\|\||&&|\|\||==|!=|<=|>=|=>|->|::|\S', text)

def compare(orig_path, orig_name, re_path, re_name):
    """returns None when identical modulo RENAME, else a message."""
    a = spec_fn_text(orig_path, orig_name)
    b = spec_fn_text(re_path, re_name)
    if a is None:
        return 'original spec fn %s not found in %s' % (orig_name, os.path.basename(orig_path))
    if b is None:
        return 'restatement spec fn %s not found in %s' % (re_name, os.path.basename(re_path))
    ta = [RENAME.get(x, x) for x in tokens(a)]
    tb = tokens(b)
    # visibility / openness keywords before `spec fn` are outside the compared text; generic bound names are compared as written
    if ta == tb:
        return None
    for k, (x, y) in enumerate(zip(ta, tb)):
        if x != y:
            return 'restatement %s differs from %s at token %d: expected `%s`, found `%s` (context: %s)' % (re_name, orig_name, k, x, y, ' '.join(tb[max(0, k - 6):k + 4]))
    return 'restatement %s differs from %s in length (%d vs %d tokens)' % (re_name, orig_name, len(ta), len(tb))

if __name__ == '__main__':
    import sys
    print(compare(*sys.argv[1:5]))

#!/bin/sh
# usage: confirm_seed.sh <worktree> <patch.diff> <demo.rs>
# Confirms in a scratch worktree: (1) suite passes with the change, (2) demo fails with it, (3) demo passes without it.
WT=$1; PATCH=$2; DEMO=$3
cd "$WT" || exit 2
git checkout -q -- . ; rm -f ddo/tests/seed_demo*.rs
git apply "$PATCH" || { echo "PATCH DOES NOT APPLY"; exit 2; }
echo "== suite with change"; cargo test --workspace --offline 2>&1 | grep -E "^test result|FAILED|panicked" | head -5
mkdir -p ddo/tests; cp "$DEMO" ddo/tests/seed_demo.rs
echo "== demo with change (must FAIL)"; cargo test --offline -p ddo --test seed_demo 2>&1 | grep -E "^test result|panicked" | head -5
git checkout -q -- ddo/src
echo "== demo without change (must PASS)"; cargo test --offline -p ddo --test seed_demo 2>&1 | grep -E "^test result|panicked" | head -5
rm -f ddo/tests/seed_demo.rs

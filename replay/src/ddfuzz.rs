//! Diagram-level witness search (bounded, NOT a proof step): the real Mdd<LEL>, Mdd<FRONTIER> and Pooled diagrams are compiled
//! on random table-driven layered DPs (powerset relaxation), for every reachable exact sub-problem root, several widths and
//! incumbents, re-using one diagram object, through recording wrappers of Problem / Relaxation; the results are compared with
//! the exact value-to-go.  Checks the statements of C06, C07, C08 (i-iv), C12 (callback protocol) and C13 (width).
use ddo::*;
use crate::solverfuzz::{Lcg, Table, TS, TRank};
use std::cell::RefCell;
use std::sync::Arc;

const NS: usize = 3;
const ND: usize = 2;

#[derive(Default)]
struct Rec {
    violation: Option<String>,
    root_depth: usize,
    iter: usize,                      // number of next_variable calls so far
    cur_var: Option<usize>,
    layer_states: Vec<TS>,            // states handed to the last next_variable
    expanded_in_layer: usize,
    per_layer: Vec<usize>,
    last_merge: Option<(TS, Vec<TS>)>,
}
struct WPb<'a> { t: &'a Table, r: &'a RefCell<Rec> }
fn viol(r: &RefCell<Rec>, m: String) { let mut x = r.borrow_mut(); if x.violation.is_none() { x.violation = Some(m); } }
impl Problem for WPb<'_> {
    type State = TS;
    fn nb_variables(&self) -> usize { self.t.nb_variables() }
    fn initial_state(&self) -> TS { self.t.initial_state() }
    fn initial_value(&self) -> isize { self.t.initial_value() }
    fn transition(&self, s: &TS, d: Decision) -> TS { self.t.transition(s, d) }
    fn transition_cost(&self, s: &TS, n: &TS, d: Decision) -> isize {
        if *n != self.t.transition(s, d) { viol(self.r, format!("C12: transition_cost(src={:?}, dst={:?}, {:?}) but transition(src, d) = {:?}", s, n, d, self.t.transition(s, d))); }
        let mut dom = vec![]; self.t.for_each_in_domain(d.variable, s, &mut |x: Decision| dom.push(x.value));
        if !dom.contains(&d.value) { viol(self.r, format!("C12: transition_cost with a decision {:?} outside the domain of {:?}", d, s)); }
        self.t.transition_cost(s, n, d)
    }
    fn next_variable(&self, depth: usize, states: &mut dyn Iterator<Item = &TS>) -> Option<Variable> {
        let v: Vec<TS> = states.copied().collect();
        let mut x = self.r.borrow_mut();
        if x.iter > 0 { let e = x.expanded_in_layer; x.per_layer.push(e); }
        if depth != x.root_depth + x.iter && x.violation.is_none() {
            x.violation = Some(format!("C12: next_variable called with depth {depth}, expected {} (root depth {} + {} completed layers)", x.root_depth + x.iter, x.root_depth, x.iter));
        }
        x.iter += 1; x.expanded_in_layer = 0; x.layer_states = v;
        let r = if depth < self.t.layers { Some(Variable(depth)) } else { None };
        x.cur_var = r.map(|v| v.id());
        r
    }
    fn for_each_in_domain(&self, var: Variable, s: &TS, f: &mut dyn DecisionCallback) {
        {
            let mut x = self.r.borrow_mut();
            x.expanded_in_layer += 1;
            if x.violation.is_none() {
                if x.cur_var != Some(var.id()) { x.violation = Some(format!("C12: for_each_in_domain for variable {} but next_variable selected {:?}", var.id(), x.cur_var)); }
                else if !x.layer_states.contains(s) && !x.last_merge.as_ref().map_or(false, |(m, mem)| m == s && mem.iter().all(|q| x.layer_states.contains(q))) {
                    // a state of the layer = one of the states handed to next_variable, or the state obtained by merging some of them
                    x.violation = Some(format!("C12: for_each_in_domain for state {:?} which is not a state of the current layer", s)); }
            }
        }
        self.t.for_each_in_domain(var, s, f)
    }
}
struct WRlx<'a> { t: &'a Table, r: &'a RefCell<Rec> }
impl Relaxation for WRlx<'_> {
    type State = TS;
    fn merge(&self, states: &mut dyn Iterator<Item = &TS>) -> TS {
        let v: Vec<TS> = states.copied().collect();
        if v.len() < 2 { viol(self.r, format!("C12: merge over {} state(s)", v.len())); }
        if v.iter().any(|s| s.depth != v[0].depth) { viol(self.r, "C12: merge over states of different layers".into()); }
        let m = TS { depth: v[0].depth, set: v.iter().fold(0, |a, s| a | s.set) };
        self.r.borrow_mut().last_merge = Some((m, v));
        m
    }
    fn relax(&self, s: &TS, d: &TS, m: &TS, dec: Decision, cost: isize) -> isize {
        if *d != self.t.transition(s, dec) { viol(self.r, format!("C12: relax(src={:?}, dst={:?}, ..) but transition(src, d) = {:?}", s, d, self.t.transition(s, dec))); }
        if cost != self.t.transition_cost(s, d, dec) { viol(self.r, format!("C12: relax called with cost {cost} but the cost of that arc is {}", self.t.transition_cost(s, d, dec))); }
        match &self.r.borrow().last_merge {
            Some((lm, members)) => {
                if lm != m { viol(self.r, format!("C12: relax called with merged = {:?} but merge just returned {:?}", m, lm)); }
                else if !members.contains(d) { viol(self.r, format!("C12: relax called with dst = {:?} which is not among the merged states", d)); }
            }
            None => viol(self.r, "C12: relax called before any merge".into()),
        }
        cost
    }
    fn fast_upper_bound(&self, st: &TS) -> isize {
        match self.t.rub_slack { None => isize::MAX, Some(k) => {
            let k = if self.t.rub_even_only && st.depth % 2 == 1 { k + 6 } else { k };
            let mut b = isize::MIN;
            for s in 0..NS { if st.set >> s & 1 == 1 { if let Some(h) = self.t.hstar(st.depth, s) { b = b.max(h + k); } } }
            b } }
    }
}

/// exact value-to-go of a singleton state (depth, base s)
fn h(t: &Table, st: &TS) -> Option<isize> { let s = st.set.trailing_zeros() as usize; t.hstar(st.depth, s) }
/// replay a path from the problem root: Some((state, value)) or None if infeasible / malformed
fn replay_prefix(t: &Table, path: &[Decision]) -> Option<(TS, isize)> {
    let mut ds = vec![None; t.layers];
    for d in path { if d.variable.id() >= t.layers || ds[d.variable.id()].is_some() { return None; } ds[d.variable.id()] = Some(d.value); }
    let depth = path.len();
    let (mut s, mut v) = (0usize, t.init);
    for l in 0..depth { let d = ds[l]? as usize; if d >= ND { return None; } let (s2, c) = t.trans[l][s][d]?; s = s2; v += c; }
    Some((TS { depth, set: 1 << s }, v))
}
/// all exact sub-problems (state, best value, one path) at depth <= 2
fn roots(t: &Table) -> Vec<SubProblem<TS>> {
    let mut res = vec![SubProblem { state: Arc::new(t.initial_state()), value: t.init, path: vec![], ub: isize::MAX, depth: 0 }];
    let mut frontier = res.clone();
    for _ in 0..2 {
        let mut next: Vec<SubProblem<TS>> = vec![];
        for sp in &frontier { if sp.depth >= t.layers { continue; }
            let s = sp.state.set.trailing_zeros() as usize;
            for d in 0..ND { if let Some((s2, c)) = t.trans[sp.depth][s][d] {
                let st = TS { depth: sp.depth + 1, set: 1 << s2 };
                let mut path = sp.path.clone(); path.push(Decision { variable: Variable(sp.depth), value: d as isize });
                let cand = SubProblem { state: Arc::new(st), value: sp.value + c, path, ub: isize::MAX, depth: sp.depth + 1 };
                if let Some(e) = next.iter_mut().find(|e| *e.state == st) { if cand.value > e.value { *e = cand; } } else { next.push(cand); }
            } }
        }
        res.extend(next.iter().cloned());
        frontier = next;
    }
    res
}

fn check_one<D: DecisionDiagram<State = TS>>(t: &Table, dd: &mut D, name: &str, root: &SubProblem<TS>, ct: CompilationType, width: usize, lb: isize) -> Option<String> {
    let rec = RefCell::new(Rec { root_depth: root.depth, ..Default::default() });
    let pb = WPb { t, r: &rec };
    let rlx = WRlx { t, r: &rec };
    let rk = TRank;
    let cut = NoCutoff;
    let cache = EmptyCache::new();
    let dom = EmptyDominanceChecker::default();
    let input = CompilationInput { comp_type: ct, problem: &pb, relaxation: &rlx, ranking: &rk, cutoff: &cut, max_width: width, residual: root, best_lb: lb, cache: &cache, dominance: &dom };
    let comp = match dd.compile(&input) { Ok(c) => c, Err(_) => return Some("compile failed without a cutoff".into()) };
    let ctx = format!("{name} {:?} width {width} lb {lb} root (depth {}, state {:?}, value {})", ct, root.depth, *root.state, root.value);
    if let Some(v) = rec.borrow().violation.clone() { return Some(format!("{v}  [{ctx}]")); }
    let sub_opt = h(t, &root.state).map(|x| x + root.value);
    let beats = sub_opt.map_or(false, |o| o > lb);
    // C13: width bound on the number of expanded states per layer
    { let r = rec.borrow(); for (i, &n) in r.per_layer.iter().enumerate() {
        let bounded = match ct { CompilationType::Restricted => true, CompilationType::Relaxed => i >= 2, CompilationType::Exact => false };
        if bounded && n > width { return Some(format!("C13: {n} states expanded in layer {i} with max_width {width}  [{ctx}]")); } } }
    let bv = dd.best_value();
    if comp.best_value != bv { return Some(format!("Completion.best_value {:?} != best_value() {:?}  [{ctx}]", comp.best_value, bv)); }
    match ct {
        CompilationType::Relaxed => {
            if beats && bv.map_or(true, |v| v < sub_opt.unwrap()) { return Some(format!("C06: relaxed best value {:?} below the sub-problem optimum {:?}  [{ctx}]", bv, sub_opt)); }
        }
        CompilationType::Restricted | CompilationType::Exact => {
            if let Some(v) = bv { if sub_opt.map_or(true, |o| v > o) { return Some(format!("C07: value {v} above the sub-problem optimum {:?}  [{ctx}]", sub_opt)); }
                match dd.best_solution() { None => return Some(format!("C07: value without solution  [{ctx}]")),
                    Some(sol) => if t.replay(&sol) != Some(v) { return Some(format!("C07: best solution replays to {:?}, reported value {v}  [{ctx}]", t.replay(&sol))); } } }
            if ct == CompilationType::Exact && beats && bv != sub_opt { return Some(format!("C07: exact mode gives {:?}, optimum {:?}  [{ctx}]", bv, sub_opt)); }
        }
    }
    if dd.is_exact() != comp.is_exact { return Some(format!("is_exact() != Completion.is_exact  [{ctx}]")); }
    if let Some(v) = dd.best_exact_value() {
        if sub_opt.map_or(true, |o| v > o) { return Some(format!("C06/C07: best_exact_value {v} above the sub-problem optimum {:?}  [{ctx}]", sub_opt)); }
        match dd.best_exact_solution() { None => return Some(format!("C02: exact value without exact solution  [{ctx}]")),
            Some(sol) => if t.replay(&sol) != Some(v) { return Some(format!("C06/C02: best_exact_solution replays to {:?}, best_exact_value {v}  [{ctx}]", t.replay(&sol))); } }
    }
    if dd.is_exact() && beats && dd.best_exact_value() != sub_opt {
        return Some(format!("C06/C07: the diagram claims exactness but best_exact_value {:?} != sub-problem optimum {:?}  [{ctx}]", dd.best_exact_value(), sub_opt));
    }
    // C08
    if ct == CompilationType::Relaxed && !dd.is_exact() {
        let be = dd.best_exact_value();
        let mut cs: Vec<SubProblem<TS>> = vec![];
        dd.drain_cutset(|sp| cs.push(sp));
        for sp in &cs {
            match replay_prefix(t, &sp.path) {
                Some((st, v)) if st == *sp.state && v == sp.value && sp.depth == st.depth => {}
                other => return Some(format!("C08(i): cut-set sub-problem (state {:?}, value {}, depth {}) but its path replays to {:?}  [{ctx}]", *sp.state, sp.value, sp.depth, other)),
            }
            if sp.depth <= root.depth { return Some(format!("C08(ii): cut-set sub-problem at depth {} is not deeper than the root (depth {})  [{ctx}]", sp.depth, root.depth)); }
            if let Some(hv) = h(t, &sp.state) { let o = hv + sp.value; if o > lb && sp.ub < o {
                return Some(format!("C08(iii): cut-set sub-problem (state {:?}, value {}) has ub {} but its best completion is worth {o}  [{ctx}]", *sp.state, sp.value, sp.ub)); } }
        }
        // (iv) coverage of the optimum of the root sub-problem
        if let Some(o) = sub_opt { if o > lb && be.map_or(true, |b| o > b) {
            if !cs.iter().any(|sp| h(t, &sp.state).map_or(false, |hv| hv + sp.value == o)) {
                return Some(format!("C08(iv): the optimum {o} of the root sub-problem beats the incumbent {lb} and the best exact value {:?} but no cut-set sub-problem contains it  [{ctx}]", be));
            } } }
    }
    None
}

/// args: <seed> <number of instances>
pub fn fuzz(args: &[&str]) -> bool {
    let seed: u64 = args.first().and_then(|s| s.parse().ok()).unwrap_or(1);
    let n: usize = args.get(1).and_then(|s| s.parse().ok()).unwrap_or(300);
    let mut r = Lcg(seed.wrapping_mul(1000003).wrapping_add(29));
    let mut lel = DefaultMDDLEL::<TS>::new();
    let mut fc = DefaultMDDFC::<TS>::new();
    let mut pooled = Pooled::<TS>::new();
    for it in 0..n {
        let t = Table::random(&mut r);
        for root in roots(&t) {
            let so = h(&t, &root.state).map(|x| x + root.value);
            let lbs: Vec<isize> = match so { Some(o) => vec![isize::MIN, o - 2, o - 1, o, o + 1], None => vec![isize::MIN, 0] };
            for ct in [CompilationType::Relaxed, CompilationType::Restricted, CompilationType::Exact] { for width in 1..=4usize { for &lb in &lbs {
                let res = check_one(&t, &mut lel, "DefaultMDDLEL", &root, ct, width, lb)
                    .or_else(|| check_one(&t, &mut fc, "DefaultMDDFC", &root, ct, width, lb))
                    .or_else(|| check_one(&t, &mut pooled, "Pooled", &root, ct, width, lb));
                if let Some(m) = res {
                    println!("failing compilation found after {} instances", it + 1);
                    println!("  violated: {m}");
                    println!("  instance: {:?}", t);
                    return false;
                }
            } } }
        }
    }
    println!("no failing compilation among {n} random instances");
    true
}

//! Kani harnesses over the *public API* of the real crate (path dependency on /repo/ddo).
//! Every harness here is loop-free over full-domain symbolic inputs => a complete proof, unless
//! its name starts with `bounded_` (then it carries #[kani::unwind] and is labelled bounded).
#![allow(dead_code)]
use ddo::*;

pub struct StubSolver { pub lb: isize, pub ub: isize }
impl Solver for StubSolver {
    fn maximize(&mut self) -> Completion { Completion { is_exact: true, best_value: None } }
    fn best_value(&self) -> Option<isize> { None }
    fn best_solution(&self) -> Option<Solution> { None }
    fn best_lower_bound(&self) -> isize { self.lb }
    fn best_upper_bound(&self) -> isize { self.ub }
    fn set_primal(&mut self, _: isize, _: Solution) {}
    fn explored(&self) -> usize { 0 }
}

#[cfg(kani)]
mod gap {
    use super::*;

    fn sym() -> (isize, isize) {
        let lb: isize = kani::any();
        let ub: isize = kani::any();
        kani::assume(lb <= ub);
        (lb, ub)
    }

    /// C17: never NaN, never negative (all lb <= ub, 128 symbolic bits, bit-precise f32).
    #[kani::proof]
    fn c17_gap_not_nan_not_negative() {
        let (lb, ub) = sym();
        let g = StubSolver { lb, ub }.gap();
        assert!(!g.is_nan(), "C17.not_nan");
        assert!(g >= 0.0, "C17.non_negative");
    }

    /// C17: 1 while either bound is infinite.
    #[kani::proof]
    fn c17_gap_one_when_infinite() {
        let (lb, ub) = sym();
        kani::assume(ub == isize::MAX || lb == isize::MIN);
        let g = StubSolver { lb, ub }.gap();
        assert!(g == 1.0, "C17.one_when_infinite");
    }

    /// C17: 0 exactly when the (finite) bounds coincide.
    #[kani::proof]
    fn c17_gap_zero_iff_equal() {
        let (lb, ub) = sym();
        kani::assume(ub != isize::MAX && lb != isize::MIN);
        let g = StubSolver { lb, ub }.gap();
        assert!((g == 0.0) == (lb == ub), "C17.zero_iff_equal");
    }

    /// C17: at most 1 when both (finite) bounds have the same sign.
    #[kani::proof]
    fn c17_gap_le_one_same_sign() {
        let (lb, ub) = sym();
        kani::assume(ub != isize::MAX && lb != isize::MIN);
        kani::assume((lb >= 0) == (ub >= 0));
        let g = StubSolver { lb, ub }.gap();
        assert!(g <= 1.0, "C17.le_one_same_sign");
    }

    /// vacuity guard: the assumptions above are satisfiable (this cover must be reachable).
    #[kani::proof]
    fn c17_gap_cover() {
        let (lb, ub) = sym();
        let g = StubSolver { lb, ub }.gap();
        kani::cover!(g > 0.0 && g < 1.0, "C17.cover_strictly_between");
        kani::cover!(lb < 0 && ub > 0, "C17.cover_mixed_sign");
    }
}

// (Kani harnesses for Times / DivBy were tried and dropped: a 64x64-bit symbolic multiplication / division does not terminate in
// CBMC within 20 minutes; the Verus unit `width` proves them with nonlinear arithmetic.)

#[cfg(kani)]
mod stores {
    use super::*;
    /// C18 / C09: the derived Ord of Threshold is lexicographic on (value, explored) and `max` keeps the larger one
    #[kani::proof]
    fn c18_threshold_max_is_lexicographic() {
        let v1: isize = kani::any(); let e1: bool = kani::any();
        let v2: isize = kani::any(); let e2: bool = kani::any();
        let t = Threshold { value: v1, explored: e1 }.max(Threshold { value: v2, explored: e2 });
        // lexicographic maximum on (value, explored), false < true
        let first_is_max = v1 > v2 || (v1 == v2 && (e1 || !e2));
        let exp = if first_is_max { (v1, e1) } else { (v2, e2) };
        assert!(t.value == exp.0 && t.explored == exp.1, "C18.update_is_lexicographic_max");
    }
}

#[cfg(kani)]
mod ranking {
    use super::*;
    use std::cmp::Ordering;
    use std::sync::Arc;
    struct ByValue;
    impl StateRanking for ByValue { type State = u8; fn compare(&self, a: &u8, b: &u8) -> Ordering { a.cmp(b) } }
    /// C11: MaxUB orders by upper bound, then value, then the state ranking
    #[kani::proof]
    fn c11_maxub_is_lexicographic() {
        let (u1, v1, s1, u2, v2, s2): (isize, isize, u8, isize, isize, u8) = (kani::any(), kani::any(), kani::any(), kani::any(), kani::any(), kani::any());
        let a = SubProblem { state: Arc::new(s1), value: v1, path: vec![], ub: u1, depth: 0 };
        let b = SubProblem { state: Arc::new(s2), value: v2, path: vec![], ub: u2, depth: 0 };
        let rk = ByValue;
        let r = MaxUB::new(&rk).compare(&a, &b);
        assert!(r == (u1, v1, s1).cmp(&(u2, v2, s2)), "C11.maxub_lexicographic");
    }
}

"""Minimal tokenizer-aware helpers for Rust source text (python3, no deps).

Only what the extractor needs:
  * code_mask(text): per-character flag, True when the character is *code* (not inside a
    line comment, block comment (nested), string literal, raw string, byte string or char
    literal).  Lifetimes ('a) are code.
  * strip_comments(text): remove comments, keep strings.
  * match_close(text, mask, i): index of the bracket matching the opening bracket at i.
  * find_kw(text, mask, kw, start, end): word-boundary keyword occurrences in code.
"""
import re

OPEN = {'(': ')', '[': ']', '{': '}'}
CLOSE = {')': '(', ']': '[', '}': '{'}


def code_mask(text):
    n = len(text)
    mask = [True] * n
    i = 0
    while i < n:
        c = text[i]
        if c == '/' and i + 1 < n and text[i + 1] == '/':
            j = text.find('\n', i)
            if j < 0:
                j = n
            for k in range(i, j):
                mask[k] = False
            i = j
            continue
        if c == '/' and i + 1 < n and text[i + 1] == '*':
            depth = 1
            j = i + 2
            while j < n and depth > 0:
                if text.startswith('/*', j):
                    depth += 1
                    j += 2
                elif text.startswith('*/', j):
                    depth -= 1
                    j += 2
                else:
                    j += 1
            for k in range(i, j):
                mask[k] = False
            i = j
            continue
        # raw strings r"..", r#".."#, br#".."#
        m = re.compile(r'b?r(#*)"').match(text, i)
        if m and (i == 0 or not (text[i - 1].isalnum() or text[i - 1] == '_')):
            hashes = m.group(1)
            endpat = '"' + hashes
            j = text.find(endpat, m.end())
            j = n if j < 0 else j + len(endpat)
            for k in range(i, j):
                mask[k] = False
            i = j
            continue
        if c == '"' or (c == 'b' and i + 1 < n and text[i + 1] == '"' and (i == 0 or not (text[i - 1].isalnum() or text[i - 1] == '_'))):
            j = i + (2 if c == 'b' else 1)
            while j < n and text[j] != '"':
                if text[j] == '\\':
                    j += 1
                j += 1
            j = min(j + 1, n)
            for k in range(i, j):
                mask[k] = False
            i = j
            continue
        if c == "'":
            # char literal or lifetime
            m = re.compile(r"'(\\.[^']*|[^\\'])'").match(text, i)
            if m:
                for k in range(i, m.end()):
                    mask[k] = False
                i = m.end()
                continue
            # lifetime: leave as code
            i += 1
            continue
        i += 1
    return mask


def strip_comments(text):
    """Remove // and /* */ comments (keeps string literals)."""
    n = len(text)
    out = []
    i = 0
    mask = code_mask(text)
    while i < n:
        if not mask[i] and (text.startswith('//', i) or text.startswith('/*', i)):
            # skip to the end of this non-code run *if* it is a comment
            j = i
            if text.startswith('//', i):
                while j < n and text[j] != '\n':
                    j += 1
            else:
                depth = 0
                while j < n:
                    if text.startswith('/*', j):
                        depth += 1
                        j += 2
                    elif text.startswith('*/', j):
                        depth -= 1
                        j += 2
                        if depth == 0:
                            break
                    else:
                        j += 1
            i = j
            continue
        out.append(text[i])
        i += 1
    return ''.join(out)


def match_close(text, mask, i):
    """text[i] is an opening bracket in code; return index of its matching closer."""
    assert text[i] in OPEN and mask[i], (text[i:i + 20], i)
    stack = [text[i]]
    j = i + 1
    n = len(text)
    while j < n:
        if mask[j]:
            c = text[j]
            if c in OPEN:
                stack.append(c)
            elif c in CLOSE:
                if not stack or stack[-1] != CLOSE[c]:
                    raise ValueError('unbalanced bracket at %d: %r' % (j, text[max(0, j - 30):j + 10]))
                stack.pop()
                if not stack:
                    return j
        j += 1
    raise ValueError('no matching close for bracket at %d' % i)


def find_kw(text, mask, kw, start=0, end=None):
    end = len(text) if end is None else end
    res = []
    for m in re.finditer(r'(?<![A-Za-z0-9_])' + re.escape(kw) + r'(?![A-Za-z0-9_])', text[start:end]):
        p = start + m.start()
        if mask[p]:
            res.append(p)
    return res


def depth_at(text, mask, start, pos):
    """bracket depth (all kinds) of position pos relative to start."""
    d = 0
    for k in range(start, pos):
        if mask[k]:
            c = text[k]
            if c in OPEN:
                d += 1
            elif c in CLOSE:
                d -= 1
    return d

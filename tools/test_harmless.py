#!/usr/bin/env python3
"""Applies each HARMLESS edit stored in /verif/harmless (behaviour-preserving refactorings) to /repo and runs the quick check of every
property whose units read one of the changed files: none may print a VIOLATION line or exit 1 (exit 0 or 2 only).
usage: tools/test_harmless.py [name ...]      (names without .diff; default: all)"""
import os, re, subprocess, sys, glob
VERIF = os.path.dirname(os.path.dirname(os.path.abspath(__file__)))
sys.path.insert(0, os.path.join(VERIF, 'tools'))
from config import PROPS
os.chdir(VERIF)
if subprocess.run(['git', '-C', '/repo', 'status', '--porcelain'], capture_output=True, text=True).stdout.strip():
    print('/repo is not clean: refusing'); sys.exit(2)

def unit_sources(u, seen=None):
    seen = seen or set()
    res = set()
    for ext in ('.vtpl', '.vinc'):
        p = os.path.join('units', u + ext) if not u.endswith(('.vtpl', '.vinc')) else os.path.join('units', u)
        if os.path.exists(p) and p not in seen:
            seen.add(p)
            t = open(p).read()
            res |= set(re.findall(r'//@ source \w+ = (\S+)', t))
            for inc in re.findall(r'//@ include (\S+)', t):
                res |= unit_sources(inc, seen)
    return res
KANI_SOURCES = {'ddo/src/abstraction/solver.rs', 'ddo/src/common.rs', 'ddo/src/implementation/heuristics/subproblem_ranking.rs'}
def props_for(files):
    out = []
    for p, cfg in sorted(PROPS.items()):
        srcs = set()
        for u in cfg.get('units', []) + cfg.get('dep_units', []):
            srcs |= unit_sources(u)
        if cfg.get('kani'):
            srcs |= KANI_SOURCES
        if srcs & files:
            out.append(p)
    return out
names = sys.argv[1:] or [os.path.basename(d)[:-5] for d in sorted(glob.glob('harmless/*.diff'))]
bad = 0
for n in names:
    d = os.path.join(VERIF, 'harmless', n + '.diff')
    files = set(re.findall(r'^\+\+\+ b/(\S+)', open(d).read(), re.M))
    if subprocess.run(['git', '-C', '/repo', 'apply', d]).returncode != 0:
        print('%s: does not apply' % n); continue
    line = []
    try:
        for p in props_for(files):
            r = subprocess.run(['./check', p, 'quick'], capture_output=True, text=True, timeout=1200)
            alarm = r.returncode == 1 or re.search(r'^VIOLATION', r.stdout, re.M)
            if alarm:
                bad = 1
                print('FALSE ALARM: %s / %s\n%s' % (n, p, '\n'.join(l for l in r.stdout.split('\n') if l.startswith(('VIOLATION', 'UNDECIDED')))))
            line.append('%s:rc=%d' % (p, r.returncode))
    finally:
        subprocess.run(['git', '-C', '/repo', 'checkout', 'HEAD', '--', '.'])
    print('%s [%s]: %s' % (n, ' '.join(sorted(files)), ' '.join(line)), flush=True)
print(subprocess.run(['git', '-C', '/repo', 'status', '--porcelain'], capture_output=True, text=True).stdout, end='')
sys.exit(bad)

//! Witness searches for the threshold cache (C18/C09) and the dominance store (C10/C18): random operation sequences over
//! small alphabets, replayed on the real SimpleCache / SimpleDominanceChecker and on straightforward reference models.
use ddo::*;
use std::collections::HashMap;
use std::sync::Arc;

struct Lcg(u64);
impl Lcg { fn next(&mut self, m: u64) -> u64 { self.0 = self.0.wrapping_mul(6364136223846793005).wrapping_add(1442695040888963407); (self.0 >> 33) % m } }

struct P3;
impl Problem for P3 {
    type State = u8;
    fn nb_variables(&self) -> usize { 3 }
    fn initial_state(&self) -> u8 { 0 }
    fn initial_value(&self) -> isize { 0 }
    fn transition(&self, s: &u8, _d: Decision) -> u8 { *s }
    fn transition_cost(&self, _s: &u8, _: &u8, _d: Decision) -> isize { 0 }
    fn next_variable(&self, _depth: usize, _: &mut dyn Iterator<Item = &u8>) -> Option<Variable> { None }
    fn for_each_in_domain(&self, _var: Variable, _s: &u8, _f: &mut dyn DecisionCallback) {}
}

/// args: <seed> <number of sequences>
pub fn cache_fuzz(args: &[&str]) -> bool {
    let mut r = Lcg(args.first().and_then(|s| s.parse().ok()).unwrap_or(1) * 77 + 5);
    let n: usize = args.get(1).and_then(|s| s.parse().ok()).unwrap_or(20000);
    for it in 0..n {
        let mut c = SimpleCache::<u8>::default();
        c.initialize(&P3);
        let mut model: Vec<HashMap<u8, (isize, bool)>> = vec![HashMap::new(); 4];
        let mut log = vec![];
        for _ in 0..(2 + r.next(8)) {
            match r.next(8) {
                0..=4 => {
                    let (s, d, v, e) = (r.next(2) as u8, r.next(3) as usize, r.next(3) as isize, r.next(2) == 1);
                    log.push(format!("update(state={s}, depth={d}, value={v}, explored={e})"));
                    c.update_threshold(Arc::new(s), d, v, e);
                    let cur = model[d].get(&s).copied();
                    let new = match cur { Some(o) if o >= (v, e) => o, _ => (v, e) };
                    model[d].insert(s, new);
                }
                5 => { let d = r.next(3) as usize; log.push(format!("clear_layer({d})")); c.clear_layer(d); model[d].clear(); }
                6 => { if r.next(4) == 0 { log.push("clear()".into()); c.clear(); for m in model.iter_mut() { m.clear(); } } }
                _ => {}
            }
            for d in 0..3usize { for s in 0..2u8 {
                let got = c.get_threshold(&s, d).map(|t| (t.value, t.explored));
                let exp = model[d].get(&s).copied();
                if got != exp {
                    println!("failing cache history found after {} sequences: {}", it + 1, log.join("; "));
                    println!("  violated: get_threshold(state={s}, depth={d}) = {:?} but the maximum of the thresholds recorded since the layer was last cleared is {:?}", got, exp);
                    return false;
                }
                // must_explore rule (C09)
                for v in 0..3isize {
                    let sp = SubProblem { state: Arc::new(s), value: v, path: vec![], ub: 10, depth: d };
                    let me = c.must_explore(&sp);
                    let want = match exp { None => true, Some((tv, te)) => v > tv || (v == tv && !te) };
                    if me != want {
                        println!("failing cache history found after {} sequences: {}", it + 1, log.join("; "));
                        println!("  violated: must_explore(state={s}, depth={d}, value={v}) = {me} with threshold {:?}", exp);
                        return false;
                    }
                }
            } }
        }
    }
    println!("no failing history among {n} random histories");
    true
}

#[derive(Clone)]
struct Dom2 { use_value: bool }
impl Dominance for Dom2 {
    type State = (u8, [isize; 2]);
    type Key = u8;
    fn get_key(&self, s: Arc<Self::State>) -> Option<u8> { Some(s.0) }
    fn nb_dimensions(&self, _s: &Self::State) -> usize { 2 }
    fn get_coordinate(&self, s: &Self::State, i: usize) -> isize { s.1[i] }
    fn use_value(&self) -> bool { self.use_value }
}
fn dominates(uv: bool, a: &([isize; 2], isize), b: &([isize; 2], isize)) -> bool {
    // a strictly dominates b
    let ge = a.0[0] >= b.0[0] && a.0[1] >= b.0[1] && (!uv || a.1 >= b.1);
    let gt = a.0[0] > b.0[0] || a.0[1] > b.0[1] || (uv && a.1 > b.1);
    ge && gt
}
/// args: <seed> <number of sequences>
pub fn dominance_fuzz(args: &[&str]) -> bool {
    let mut r = Lcg(args.first().and_then(|s| s.parse().ok()).unwrap_or(1) * 91 + 3);
    let n: usize = args.get(1).and_then(|s| s.parse().ok()).unwrap_or(20000);
    for it in 0..n {
        let uv = r.next(2) == 1;
        let chk = SimpleDominanceChecker::new(Dom2 { use_value: uv }, 2);
        let mut front: HashMap<(usize, u8), Vec<([isize; 2], isize)>> = HashMap::new();
        let mut log = vec![];
        for _ in 0..(2 + r.next(7)) {
            if r.next(12) == 0 {
                let d = r.next(2) as usize; log.push(format!("clear_layer({d})")); chk.clear_layer(d);
                front.retain(|k, _| k.0 != d);
                continue;
            }
            let (k, d) = (r.next(2) as u8, r.next(2) as usize);
            let c = [r.next(3) as isize, r.next(3) as isize];
            let v = r.next(3) as isize;
            log.push(format!("query(key={k}, depth={d}, coords={:?}, value={v})", c));
            let res = chk.is_dominated_or_insert(Arc::new((k, c)), d, v);
            let l = front.entry((d, k)).or_default();
            let doms: Vec<_> = l.iter().filter(|o| dominates(uv, o, &(c, v))).cloned().collect();
            let exp = !doms.is_empty();
            let mut bad = None;
            if res.dominated != exp { bad = Some(format!("dominated = {} but the Pareto front of the recorded states says {}", res.dominated, exp)); }
            if exp {
                if let Some(t) = res.threshold { if t < v { bad = Some(format!("threshold {t} is below the presented value {v}")); } }
                if uv {
                    // soundness: the same state presented with any value up to the threshold would be dominated too
                    if let Some(t) = res.threshold { for vv in v..=t.min(v + 4) { if !l.iter().any(|o| dominates(uv, o, &(c, vv))) {
                        bad = Some(format!("threshold {t} is unsound: value {vv} would not be dominated")); } } }
                }
            } else {
                l.retain(|o| !(dominates(uv, &(c, v), o) || (o.0 == c && (!uv || o.1 == v))));
                l.push((c, v));
            }
            if let Some(b) = bad {
                println!("failing dominance query sequence found after {} sequences (use_value={uv}): {}", it + 1, log.join("; "));
                println!("  violated: {b}");
                return false;
            }
        }
    }
    println!("no failing query sequence among {n} random sequences");
    true
}

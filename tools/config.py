"""Which units / harnesses decide which property (see DESIGN.md sections 4 and 5)."""
REPO = '/repo'

COMMON_ASSUMPTIONS = [
    'Verus 0.2026.09.13 (bundled Z3) and rustc 1.98.1 front end are sound; Kani 0.68 / CBMC 6.11 are sound',
    'vstd specifications of Vec, Option, Result, HashMap and integer operations match the real std',
    'extraction rewrites R1..R10 of DESIGN.md 2.3 preserve the semantics of the extracted text (each application is counted in the evidence)',
]

# Kani harness -> how to replay a counterexample natively: (replay case, types of the kani::any() values in order)
KANI = {
    'c17_gap_not_nan_not_negative': {'replay': ('gap', ['isize', 'isize'])},
    'c17_gap_one_when_infinite': {'replay': ('gap', ['isize', 'isize'])},
    'c17_gap_zero_iff_equal': {'replay': ('gap', ['isize', 'isize'])},
    'c17_gap_le_one_same_sign': {'replay': ('gap', ['isize', 'isize'])},
    'c17_gap_cover': {},
}

PROPS = {
    'C01': {
        'units': ['seq_solver'],
        'kani': [],
        'technique': 'Verus: search invariant + optimality theorem on the extracted real text of SequentialSolver, against trait-level contracts of diagram/fringe/cache',
        'level_text': 'Deductive proof (Verus, unbounded) about the real text of custom/initialize/get_workload/process_one_node/maybe_update_best/enqueue_cutset/abort_search/maximize: an invariant (fringe content exact and bound-valid, open_by_layer == per-depth fringe counts, lower bound attained, optimum covered by a held sub-problem) is established and preserved, and maximize() ensures is_exact ==> reported value == optimum of the abstract DP and no value <==> infeasible. Holds for every Problem, every DecisionDiagram/Fringe/WidthHeuristic/ranking satisfying the trait contracts, non-caching Cache.',
        'level_note': 'Assumed (not proved here): the DecisionDiagram::compile contract dd_post (= C06-C08 as interface; leaf-supported by the mdd units), the Fringe contract for SimpleFringe (BinaryHeap trusted), DP axioms lemma_exact_le_root/lemma_root/lemma_sol_le_root, optimum fits isize. Termination of maximize is NOT proved. Caching configurations are outside this theorem (see C09).',
        'not_decided': ['termination of maximize()', 'solvers with a pruning cache (SimpleCache): theorem stated for caches with always_explores()',
                        'rough-upper-bound and dominance pruning inside compile (behind the assumed DecisionDiagram contract)'],
        'assumptions': ['DecisionDiagram::compile satisfies dd_post (trait-level contract, assumed)', 'Problem axioms: lemma_exact_le_root, lemma_root, lemma_sol_le_root, lemma_opt_fits (bodiless proof fns)',
                        'R2: drain_cutset(callback) applies the callback once per cut-set element, in order, and does nothing else with it'],
    },
    'C02': {
        'units': ['seq_solver'],
        'kani': [],
        'technique': 'Verus: ghost invariant sol_ok (stored solution replays to exactly the stored lower bound, present iff a bound is installed) on the extracted real solver text',
        'level_text': 'Deductive proof (Verus) that every function of the sequential solver that writes best_lb/best_sol keeps: solution present <==> lower bound installed, solution value == best_lb (through the diagram contract: value and solution come from the same diagram state), Completion.best_value == best_value() == Some(best_lb) iff a solution is present, best_upper_bound == best_lower_bound after an uninterrupted run.',
        'level_note': 'Feasibility of the decisions themselves is inherited from the assumed DecisionDiagram contract (best_exact_solution replays to best_exact_value); the final sort is a trusted permutation stub (R11). Parallel solver: see C03/C05 units when built.',
        'not_decided': ['domain membership of each decision (behind the DecisionDiagram contract)', 'parallel solver part of the statement'],
        'assumptions': ['sort_unstable_by_key permutes its slice (trusted stub sort_best_sol, R11)'],
    },
    'C05': {
        'units': ['seq_solver'],
        'kani': [],
        'technique': 'Verus: Err arm of process_one_node / abort_search / maximize contracts: best_lb <= optimum <= best_ub at every possible cut-off point',
        'level_text': 'Deductive proof (Verus): compile may fail at ANY call (Err arm), which over-approximates "cutoff fires at an arbitrary poll"; in that arm and after abort_search the lower bound is attained by a feasible solution and optimum <= best_ub; is_exact is reported iff no abort happened and then implies proved optimality.',
        'level_note': 'Sequential solver only; the parallel clauses of C05 are decided by unit par_solver when built. Same assumed trait contracts as C01.',
        'not_decided': ['parallel solver clauses'],
        'assumptions': [],
    },
    'C14': {
        'units': ['seq_solver'],
        'kani': [],
        'technique': 'Verus: set_primal contract + search invariant holds from any feasible primal, on the extracted real text',
        'level_text': 'Deductive proof (Verus): set_primal replaces the incumbent iff value > best_lb; given a primal that is the value of a feasible solution the invariant of C01 holds after set_primal + initialize, hence maximize() ends with best_lb >= primal, is_exact ==> best_lb == optimum (= max(primal, optimum) since primal <= optimum).',
        'level_note': 'Sequential solver; same assumed trait contracts and non-claims as C01.',
        'not_decided': ['parallel solver', 'termination'],
        'assumptions': [],
    },
    'C19': {
        'units': ['seq_solver'],
        'kani': [],
        'technique': 'Verus: monotonicity obligations on get_workload / process_one_node / enqueue_cutset of the extracted real text',
        'level_text': 'Deductive proof (Verus): best_lb never decreases (maybe_update_best, set_primal, process_one_node), the bound in force at successive compile calls never increases (get_workload: popped ub == new best_ub <= old best_ub, from the fringe contract and the invariant "every held ub <= best_ub" which enqueue_cutset maintains through ub.min), and at every exposed point best_lb <= optimum <= best_ub.',
        'level_note': 'Monotonicity in the poll index additionally uses prefix determinism of the solver (no randomness on the code path), an assumption. "Eventually exact" needs termination, not proved.',
        'not_decided': ['termination ("from some index on the run is exact")', 'prefix determinism is assumed, not proved'],
        'assumptions': ['a run cut at poll k is a prefix of the run cut at poll k+1 (deterministic code path)'],
    },
    'C13': {
        'units': ['width'],
        'kani': [],
        'not_decided': ['per-layer width bound inside compile (needs the mdd units)'],
        'assumptions': [],
        'technique': 'Verus contracts on the real width-heuristic methods (extracted per run)',
        'level_text': 'Deductive proof (Verus) on the extracted real text of FixedWidth/NbUnassignedWidth/Times/DivBy::max_width: result equals a spec function, and a lemma over that spec function shows the combinators never yield 0; all inputs, no bound.',
        'level_note': 'Arithmetic failure (overflow of the product, division by zero, underflow) is a stated precondition (width_pre), not hidden; inner heuristic is an arbitrary implementation of the trait contract.',
    },
    'C17': {
        'units': [],
        'kani': ['c17_gap_not_nan_not_negative', 'c17_gap_one_when_infinite', 'c17_gap_zero_iff_equal',
                 'c17_gap_le_one_same_sign', 'c17_gap_cover'],
        'not_decided': [],
        'technique': 'Kani/CBMC complete proof of the loop-free default method Solver::gap over all (lb, ub), counterexamples replayed natively',
        'level_text': 'Complete bit-precise proof: Solver::gap (real default method, through a stub Solver) is loop-free, so CBMC over 128 fully symbolic input bits decides every clause of the statement for all pairs lb <= ub.',
        'level_note': 'Trusted: Kani 0.68/CBMC 6.11 float model; property quantifies over lb <= ub only.',
        'assumptions': ['CBMC models IEEE-754 binary32 conversion and division bit-precisely (round-to-nearest-even)',
                        'inputs range over all (lb, ub) with lb <= ub, as in the property statement'],
    },
}


NOT_APPLICABLE = {
    'C16': 'twelve whole example programs (parsers, clap, f64 bounds, per-problem admissibility theories): outside the reach of function contracts here; see DESIGN.md section 5',
    'C20': 'property about the syntax of a format!/Debug-built string: Verus has no str reasoning and Kani stubs format!; see DESIGN.md section 5',
}
for _p in ['C03','C04','C06','C07','C08','C09','C10','C11','C12','C15','C18']:
    NOT_APPLICABLE.setdefault(_p, 'not built yet (deciding unit under construction; see DESIGN.md section 10)')

//! Solver-level witness search (bounded, NOT a proof step): random table-driven layered DPs with powerset relaxation,
//! solved by the real solvers in many configurations and compared with an exhaustive oracle.
//! Checks the statements of C01 (optimum, exactness, value iff feasible), C02 (solution replays to the value, bounds coincide),
//! C05 (bounds sound at every cutoff point), C14 (warm start), C19 (monotone anytime behaviour, sequential).
use ddo::*;
use std::sync::atomic::{AtomicUsize, Ordering as AO};
use std::sync::Arc;

pub struct Lcg(pub u64);
impl Lcg { pub fn next(&mut self, m: u64) -> u64 { self.0 = self.0.wrapping_mul(6364136223846793005).wrapping_add(1442695040888963407); (self.0 >> 33) % m } }

const NS: usize = 3;     // base states per layer
const ND: usize = 2;     // decisions per variable

#[derive(Clone, Debug)]
pub struct Table { pub layers: usize, pub init: isize, pub trans: Vec<Vec<Vec<Option<(usize, isize)>>>>, pub rub_slack: Option<isize>,
                   /// when set, the rough upper bound is tight (slack rub_slack) on even layers only and loose (slack + 6) on odd layers: valid but non-monotone
                   pub rub_even_only: bool }

#[derive(Clone, Copy, Debug, PartialEq, Eq, Hash)]
pub struct TS { pub depth: usize, pub set: u8 }

impl Table {
    pub fn random(r: &mut Lcg) -> Table {
        let layers = 3 + r.next(3) as usize;
        let mut trans = vec![];
        for _ in 0..layers {
            let mut l = vec![];
            for _ in 0..NS {
                let mut row = vec![];
                for _ in 0..ND {
                    if r.next(5) == 0 { row.push(None) } else { row.push(Some((r.next(NS as u64) as usize, r.next(9) as isize - 3))) }
                }
                l.push(row);
            }
            trans.push(l);
        }
        let rub_slack = match r.next(3) { 0 => None, 1 => Some(0), _ => Some(r.next(4) as isize) };
        let rub_even_only = rub_slack.is_some() && r.next(2) == 0;
        Table { layers, init: r.next(5) as isize - 1, trans, rub_slack, rub_even_only }
    }
    /// exact value-to-go of base state s at layer l (None = dead end)
    pub fn hstar(&self, l: usize, s: usize) -> Option<isize> {
        if l == self.layers { return Some(0); }
        let mut best = None;
        for d in 0..ND { if let Some((s2, c)) = self.trans[l][s][d] { if let Some(h) = self.hstar(l + 1, s2) {
            let v = c + h; if best.map_or(true, |b| v > b) { best = Some(v); } } } }
        best
    }
    pub fn optimum(&self) -> Option<isize> { self.hstar(0, 0).map(|h| h + self.init) }
    /// replay a solution (one decision per variable, any order) from the initial state; None = infeasible
    pub fn replay(&self, sol: &[Decision]) -> Option<isize> {
        let mut ds = vec![None; self.layers];
        for d in sol { if d.variable.id() >= self.layers || ds[d.variable.id()].is_some() { return None; } ds[d.variable.id()] = Some(d.value); }
        let (mut s, mut v) = (0usize, self.init);
        for l in 0..self.layers { let d = ds[l]? as usize; if d >= ND { return None; } let (s2, c) = self.trans[l][s][d]?; s = s2; v += c; }
        Some(v)
    }
}
impl Problem for Table {
    type State = TS;
    fn nb_variables(&self) -> usize { self.layers }
    fn initial_state(&self) -> TS { TS { depth: 0, set: 1 } }
    fn initial_value(&self) -> isize { self.init }
    fn transition(&self, st: &TS, d: Decision) -> TS {
        let mut set = 0u8;
        for s in 0..NS { if st.set >> s & 1 == 1 { if let Some((s2, _)) = self.trans[st.depth][s][d.value as usize] { set |= 1 << s2; } } }
        TS { depth: st.depth + 1, set }
    }
    fn transition_cost(&self, st: &TS, _n: &TS, d: Decision) -> isize {
        let mut best = isize::MIN;
        for s in 0..NS { if st.set >> s & 1 == 1 { if let Some((_, c)) = self.trans[st.depth][s][d.value as usize] { best = best.max(c); } } }
        best
    }
    fn next_variable(&self, depth: usize, _: &mut dyn Iterator<Item = &TS>) -> Option<Variable> { if depth < self.layers { Some(Variable(depth)) } else { None } }
    fn for_each_in_domain(&self, var: Variable, st: &TS, f: &mut dyn DecisionCallback) {
        for d in 0..ND { if (0..NS).any(|s| st.set >> s & 1 == 1 && self.trans[st.depth][s][d].is_some()) { f.apply(Decision { variable: var, value: d as isize }); } }
    }
}
pub struct TRelax<'a> { pub t: &'a Table }
impl Relaxation for TRelax<'_> {
    type State = TS;
    fn merge(&self, states: &mut dyn Iterator<Item = &TS>) -> TS { let v: Vec<TS> = states.copied().collect(); TS { depth: v[0].depth, set: v.iter().fold(0, |a, s| a | s.set) } }
    fn relax(&self, _s: &TS, _d: &TS, _m: &TS, _dec: Decision, cost: isize) -> isize { cost }
    fn fast_upper_bound(&self, st: &TS) -> isize {
        match self.t.rub_slack { None => isize::MAX, Some(k) => {
            let k = if self.t.rub_even_only && st.depth % 2 == 1 { k + 6 } else { k };
            let mut b = isize::MIN;
            for s in 0..NS { if st.set >> s & 1 == 1 { if let Some(h) = self.t.hstar(st.depth, s) { b = b.max(h + k); } } }
            b } }
    }
}
pub struct TRank;
impl StateRanking for TRank { type State = TS; fn compare(&self, a: &TS, b: &TS) -> std::cmp::Ordering { a.set.cmp(&b.set) } }
pub struct CutAt { pub k: usize, pub polls: AtomicUsize }
impl Cutoff for CutAt { fn must_stop(&self) -> bool { let p = self.polls.fetch_add(1, AO::SeqCst) + 1; self.k != 0 && p >= self.k } }

#[derive(Clone, Copy, Debug)]
pub struct Cfg { pub par: usize, pub dd: u8, pub cache: bool, pub nodup: bool, pub width: usize, pub cut: usize, pub primal: bool }

pub struct Outcome { pub exact: bool, pub value: Option<isize>, pub lb: isize, pub ub: isize, pub sol: Option<Vec<Decision>>, pub polls: usize }

/// watchdog for the multi-threaded runs: a run that does not return within 30 s is a deadlock / lost wake-up (C04): the process
/// prints the configuration and exits with status 1 (a hung worker cannot be joined, so the process is left from the watchdog)
struct Watchdog { done: Arc<std::sync::atomic::AtomicBool> }
impl Watchdog {
    fn arm(what: String) -> Watchdog {
        let done = Arc::new(std::sync::atomic::AtomicBool::new(false));
        let d2 = done.clone();
        std::thread::spawn(move || {
            for _ in 0..300 { std::thread::sleep(std::time::Duration::from_millis(100)); if d2.load(AO::SeqCst) { return; } }
            println!("failing run found: maximize() did not return within 30 s (C04: deadlock / lost wake-up / worker crash)");
            println!("  violated: C04: the parallel solver does not terminate");
            println!("  run: {what}");
            std::process::exit(1);
        });
        Watchdog { done }
    }
}
impl Drop for Watchdog { fn drop(&mut self) { self.done.store(true, AO::SeqCst); } }

pub fn run(t: &Table, c: Cfg, primal: Option<(isize, Vec<Decision>)>) -> Outcome {
    let _wd = if c.par > 0 { Some(Watchdog::arm(format!("config {:?} instance {:?}", c, t))) } else { None };
    let rlx = TRelax { t };
    let rk = TRank;
    let w = FixedWidth(c.width);
    let dom = EmptyDominanceChecker::default();
    let cut = CutAt { k: c.cut, polls: AtomicUsize::new(0) };
    let mut f1 = SimpleFringe::new(MaxUB::new(&rk));
    let mut f2 = NoDupFringe::new(MaxUB::new(&rk));
    macro_rules! go { ($ty:ty, $($extra:expr),*) => {{
        let mut s = if c.nodup { <$ty>::custom(t, &rlx, &rk, &w, &dom, &cut, &mut f2 $(, $extra)*) } else { <$ty>::custom(t, &rlx, &rk, &w, &dom, &cut, &mut f1 $(, $extra)*) };
        if let Some((v, sol)) = primal.clone() { s.set_primal(v, sol); }
        let comp = s.maximize();
        Outcome { exact: comp.is_exact, value: comp.best_value, lb: s.best_lower_bound(), ub: s.best_upper_bound(), sol: s.best_solution(), polls: cut.polls.load(AO::SeqCst) }
    }}; }
    match (c.par, c.dd, c.cache) {
        (0, 0, false) => go!(SeqNoCachingSolverLel<TS>,), (0, 1, false) => go!(SeqNoCachingSolverFc<TS>,), (0, _, false) => go!(SeqNoCachingSolverPooled<TS>,),
        (0, 0, true) => go!(SeqCachingSolverLel<TS>,), (0, 1, true) => go!(SeqCachingSolverFc<TS>,), (0, _, true) => go!(SeqCachingSolverPooled<TS>,),
        (n, 0, false) => go!(ParNoCachingSolverLel<TS>, n), (n, 1, false) => go!(ParNoCachingSolverFc<TS>, n), (n, _, false) => go!(ParNoCachingSolverPooled<TS>, n),
        (n, 0, true) => go!(ParCachingSolverLel<TS>, n), (n, 1, true) => go!(ParCachingSolverFc<TS>, n), (n, _, true) => go!(ParCachingSolverPooled<TS>, n),
    }
}

fn check(t: &Table, c: Cfg, o: &Outcome, opt: Option<isize>, primal: Option<isize>) -> Option<String> {
    let target = match (opt, primal) { (Some(a), Some(b)) => Some(a.max(b)), (a, None) => a, (None, b) => b };
    if let Some(v) = o.value { if o.lb != v { return Some(format!("C02: best_value {v} != best_lower_bound {}", o.lb)); } }
    if o.value.is_some() != o.sol.is_some() { return Some("C02: a solution is present iff a value is present".into()); }
    if primal.is_none() { if let (Some(v), Some(sol)) = (o.value, &o.sol) { if t.replay(sol) != Some(v) {
        return Some(format!("C02: reported solution replays to {:?}, reported value {v}", t.replay(sol))); } } }
    if c.cut == 0 || o.exact {
        if c.cut == 0 && !o.exact { return Some("C01: uninterrupted run reports is_exact = false".into()); }
        if o.value != target { return Some(format!("C01/C14: is_exact with value {:?}, expected {:?}", o.value, target)); }
        if o.value.is_some() && o.ub != o.lb { return Some(format!("C02: exact run but best_upper_bound {} != best_lower_bound {}", o.ub, o.lb)); }
    } else {
        if let Some(tg) = target { if o.lb > tg { return Some(format!("C05: lower bound {} above the optimum {tg}", o.lb)); }
                                   if o.ub < tg { return Some(format!("C05: upper bound {} below the optimum {tg} after a cut-off", o.ub)); } }
    }
    None
}

/// args: <seed> <number of instances> [par]   ; prints the first failing (instance, configuration)
pub fn fuzz(args: &[&str]) -> bool {
    let seed: u64 = args.first().and_then(|s| s.parse().ok()).unwrap_or(1);
    let n: usize = args.get(1).and_then(|s| s.parse().ok()).unwrap_or(300);
    let with_par = args.get(2).map_or(false, |s| *s == "par");
    let mut r = Lcg(seed * 1000003 + 17);
    for it in 0..n {
        let t = Table::random(&mut r);
        let opt = t.optimum();
        for dd in 0..3u8 { for cache in [false, true] { for nodup in [false, true] { for width in 1..=3usize {
            let pars: &[usize] = if with_par { &[0, 2, 3] } else { &[0] };
            for &par in pars {
                let base = Cfg { par, dd, cache, nodup, width, cut: 0, primal: false };
                let full = run(&t, base, None);
                if let Some(m) = check(&t, base, &full, opt, None) { return report(it, &t, base, &m); }
                // warm start with a feasible, possibly sub-optimal primal (C14)
                if let (Some(o), Some(sol)) = (opt, full.sol.clone()) { if par == 0 && t.replay(&sol) == Some(o) {
                    // build a worse feasible solution by brute force
                    if let Some((pv, psol)) = worse_solution(&t, o) {
                        let cfg = Cfg { primal: true, ..base };
                        let w = run(&t, cfg, Some((pv, psol)));
                        if let Some(m) = check(&t, cfg, &w, opt, Some(pv)) { return report(it, &t, cfg, &m); }
                    }
                } }
                // every cut-off point (C05), monotonicity for the sequential solver (C19)
                let k_max = full.polls.min(40);
                let mut prev: Option<(isize, isize)> = None;
                for k in 1..=k_max {
                    let cfg = Cfg { cut: k, ..base };
                    let o = run(&t, cfg, None);
                    if let Some(m) = check(&t, cfg, &o, opt, None) { return report(it, &t, cfg, &m); }
                    if par == 0 { if let Some((plb, pub_)) = prev {
                        if o.lb < plb { return report(it, &t, cfg, &format!("C19: lower bound decreased from {plb} (cut at poll {}) to {}", k - 1, o.lb)); }
                        if o.ub > pub_ { return report(it, &t, cfg, &format!("C19: upper bound increased from {pub_} (cut at poll {}) to {}", k - 1, o.ub)); }
                    } prev = Some((o.lb, o.ub)); }
                }
            }
        } } } }
    }
    println!("no failing (instance, configuration) among {n} random instances");
    true
}
fn worse_solution(t: &Table, opt: isize) -> Option<(isize, Vec<Decision>)> {
    let mut best: Option<(isize, Vec<Decision>)> = None;
    for mask in 0..(1usize << t.layers) {
        let sol: Vec<Decision> = (0..t.layers).map(|l| Decision { variable: Variable(l), value: (mask >> l & 1) as isize }).collect();
        if let Some(v) = t.replay(&sol) { if v < opt && best.as_ref().map_or(true, |b| v > b.0) { best = Some((v, sol)); } }
    }
    best
}
fn report(it: usize, t: &Table, c: Cfg, m: &str) -> bool {
    println!("failing instance found after {} instances: config {:?}", it + 1, c);
    println!("  violated: {m}");
    println!("  instance: {:?}", t);
    let _ = Arc::new(0);
    false
}

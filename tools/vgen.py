"""Unit generator: template (units/<u>.vtpl) + real items cut from /repo  ->  single-file Verus input.

Template = Verus text with `//@` directives.  Directives (see DESIGN.md section 2):

  //@ source ALIAS = relative/path.rs          declare a source file of /repo
  //@ fn ALIAS :: CONTAINER :: NAME            start of a function block (until //@ end)
  //@ item ALIAS :: KIND NAME                  start of an item block (struct/enum/trait/type/const/macro)
  inside a block:
    //@ props C01 C05                          properties served by every obligation of this function
    //@ ret r                                  name the return value  (-> T  becomes  -> (r: T))
    //@ attr #[...]                            attribute put in front of the item
    //@ rename NEWNAME                         rename the function (used when two impls share a name)
    //@ sub RULE /regex/ => replacement xN     closed-list rewrite, must match exactly N times (default 1)
    //@ cb2loop RULE /callee regex/ => seqcall closure callback -> loop over a sequence (rule R2)
    //@ foreach RULE                           inline `foreach!(edge of ID, DD, |edge: Edge| {BODY});` (rule R4)
    //@ spec                                   following raw lines: requires/ensures (between signature and body)
    //@ loop K                                 following raw lines: invariant/decreases of the K-th loop
    //@ at prologue                            following raw lines inserted after the opening brace
    //@ at loop K start | at loop K end        ... at start / end of K-th loop body
    //@ at before /regex/ J | at after /regex/ J   ... before / after the statement containing the J-th match
    //@ nocanary                               no vacuity canary for this function (must be justified in a comment)
    //@ mutant NAME /regex/ => replacement     sensitivity self-test mutant of the extracted text (thorough tier)
  //@ end

Clause labels: a comment of the form /*[C05.err_arm]*/ anywhere in raw spec text labels that line.
"""
import re
import os
import sys
import json
sys.path.insert(0, os.path.dirname(os.path.abspath(__file__)))
from rustlex import code_mask, match_close, strip_comments, find_kw
from extract import SourceFile, ExtractError, sha


class GenError(Exception):
    """template/extraction mismatch -> the run is *undecided* (exit 2), never an alarm."""


# marks the boundary between a function's signature and its body while rewrites are applied (a rewrite that spans the
# boundary must reproduce the mark in its replacement)
BODY_MARK = '/*@BODY@*/'
RX = re.compile(r'/((?:[^/\\]|\\.)*)/')


def parse_sub(arg):
    """RULE /regex/ => replacement [xN]"""
    m = re.match(r'\s*(\S+)\s+/((?:[^/\\]|\\.)*)/\s*=>\s?(.*?)(?:\s+x(\d+|\*))?\s*$', arg, re.S)
    if not m:
        raise GenError('bad sub directive: ' + arg)
    rule, rx, repl, cnt = m.group(1), m.group(2), m.group(3), m.group(4)
    # xN = exactly N matches (default 1); x* = any number of matches, including none (tolerates code that moves a call around)
    return rule, rx.replace('\\/', '/'), repl, (-1 if cnt == '*' else int(cnt)) if cnt else 1


class Block:
    def __init__(self, kind, alias, container, name, tpl_line):
        self.kind = kind          # 'fn' | 'item'
        self.alias = alias
        self.container = container
        self.name = name
        self.tpl_line = tpl_line
        self.props = []
        self.ret = None
        self.attrs = []
        self.rename = None
        self.subs = []            # (rule, regex, repl, count)
        self.cb2loop = []         # (rule, regex, seqcall)
        self.foreach = None
        self.spec = []
        self.loops = {}           # k -> lines
        self.at = []              # (where, lines)
        self.mutants = []         # (name, regex, repl)
        self.nocanary = False
        self.vis = None


def parse_template(path):
    lines = open(path, encoding='utf-8').read().split('\n')
    out = []           # list of ('raw', text) | ('block', Block)
    sources = {}
    cur = None
    sink = None
    for ln, line in enumerate(lines, 1):
        s = line.strip()
        if s.startswith('//@'):
            d = s[3:].strip()
            if cur is None:
                if d.startswith('include '):
                    inc = os.path.join(os.path.dirname(path), d.split()[1])
                    isrc, iparts = parse_template(inc)
                    sources.update(isrc)
                    out.extend(iparts)
                    continue
                if d.startswith('source '):
                    m = re.match(r'source\s+(\w+)\s*=\s*(\S+)', d)
                    sources[m.group(1)] = m.group(2)
                    continue
                m = re.match(r'fn\s+(\w+)\s*::\s*(.+?)\s*::\s*(\w+)\s*$', d)
                if m:
                    cur = Block('fn', m.group(1), m.group(2), m.group(3), ln)
                    sink = None
                    continue
                m = re.match(r'item\s+(\w+)\s*::\s*(\w+)\s+(\w+)\s*$', d)
                if m:
                    cur = Block('item', m.group(1), m.group(2), m.group(3), ln)
                    sink = None
                    continue
                if d.startswith('unit ') or d.startswith('#'):
                    continue
                raise GenError('%s:%d: unknown top-level directive: %s' % (path, ln, d))
            # inside a block
            if d == 'end':
                out.append(('block', cur))
                cur = None
                sink = None
                continue
            sink = None
            if d.startswith('props'):
                cur.props = d.split()[1:]
            elif d.startswith('ret '):
                cur.ret = d.split()[1]
            elif d.startswith('attr '):
                cur.attrs.append(d[5:].strip())
            elif d.startswith('rename '):
                cur.rename = d.split()[1]
            elif d.startswith('sub '):
                cur.subs.append(parse_sub(d[4:]))
            elif d.startswith('cb2loop '):
                m = re.match(r'cb2loop\s+(\S+)\s+/((?:[^/\\]|\\.)*)/\s*=>\s*(.*)$', d)
                cur.cb2loop.append((m.group(1), m.group(2), m.group(3).strip()))
            elif d.startswith('foreach'):
                cur.foreach = d.split()[1] if len(d.split()) > 1 else 'R4'
            elif d == 'spec':
                sink = cur.spec
            elif d.startswith('loop '):
                k = int(d.split()[1])
                sink = cur.loops.setdefault(k, [])
            elif d.startswith('at '):
                lst = []
                cur.at.append((d[3:].strip(), lst))
                sink = lst
            elif d == 'nocanary':
                cur.nocanary = True
            elif d.startswith('mutant '):
                m = re.match(r'mutant\s+(\S+)\s+/((?:[^/\\]|\\.)*)/\s*=>\s?(.*)$', d)
                if not m:
                    raise GenError('%s:%d: bad mutant' % (path, ln))
                cur.mutants.append((m.group(1), m.group(2).replace('\\/', '/'), m.group(3)))
            elif d.startswith('#'):
                pass
            else:
                raise GenError('%s:%d: unknown block directive: %s' % (path, ln, d))
            continue
        if cur is not None:
            if sink is None:
                if s == '':
                    continue
                raise GenError('%s:%d: raw text inside block without a sink' % (path, ln))
            sink.append(line)
        else:
            out.append(('raw', line))
    if cur is not None:
        raise GenError('%s: unterminated block %s' % (path, cur.name))
    return sources, out


# ----------------------------------------------------------------------------------------------
# function surgery
# ----------------------------------------------------------------------------------------------

def split_fn(text):
    """text = fn item (comments stripped).  returns (header, body) where body starts with '{' or is ';'."""
    m = code_mask(text)
    k = 0
    n = len(text)
    while k < n:
        if m[k]:
            c = text[k]
            if c in '([':
                k = match_close(text, m, k) + 1
                continue
            if c == '{':
                return text[:k], text[k:]
            if c == ';':
                return text[:k], ';'
        k += 1
    raise GenError('cannot split fn')


def name_return(header, r):
    """-> T [where ...]   =>   -> (r: T) [where ...]"""
    m = code_mask(header)
    # find '->' at paren depth 0 after the parameter list
    k = 0
    n = len(header)
    # skip to the parameter list's '(' (first '(' at angle depth 0 after `fn name`)
    p = header.index('(', re.search(r'\bfn\b', header).end())
    pe = match_close(header, m, p)
    rest = header[pe + 1:]
    mm = re.match(r'\s*->\s*', rest)
    if not mm:
        return header  # unit return: nothing to name
    ty_start = pe + 1 + mm.end()
    # type ends at ' where ' at depth 0 or at the end
    wm = re.search(r'\bwhere\b', header[ty_start:])
    ty_end = ty_start + wm.start() if wm else n
    ty = header[ty_start:ty_end].strip()
    return header[:ty_start] + '(%s: %s) ' % (r, ty) + header[ty_end:]


def loop_heads(body):
    """positions of loops in source order: list of (kw_pos, open_brace_pos, close_brace_pos)."""
    m = code_mask(body)
    cands = []
    for kw in ('while', 'loop', 'for'):
        for p in find_kw(body, m, kw):
            cands.append((p, kw))
    cands.sort()
    res = []
    for p, kw in cands:
        if kw == 'for':
            # skip `for<'a>` HRTB and `impl X for Y`
            after = body[p + 3:p + 6]
            if after.lstrip().startswith('<'):
                continue
        # first '{' at the same paren depth after the keyword -- but not a brace of the PATTERN of `while let P = e {` / `for P in e {`
        k = p + len(kw)
        n = len(body)
        ml = re.match(r'\s*let\b', body[k:]) if kw == 'while' else None
        if ml:
            j = k + ml.end()
            while j < n:
                if m[j]:
                    c = body[j]
                    if c in '([{':
                        j = match_close(body, m, j) + 1
                        continue
                    if c == '=' and body[j + 1:j + 2] != '=':
                        k = j + 1
                        break
                j += 1
        elif kw == 'for':
            j = k
            while j < n:
                if m[j]:
                    c = body[j]
                    if c in '([{':
                        j = match_close(body, m, j) + 1
                        continue
                    if re.match(r'in\b', body[j:]) and not (body[j - 1].isalnum() or body[j - 1] == '_'):
                        k = j + 2
                        break
                j += 1
        ob = None
        while k < n:
            if m[k]:
                c = body[k]
                if c in '([':
                    k = match_close(body, m, k) + 1
                    continue
                if c == '{':
                    ob = k
                    break
                if c in ';})]':
                    break
            k += 1
        if ob is None:
            continue
        res.append((p, ob, match_close(body, m, ob)))
    return res


def stmt_start(body, m, pos):
    """start of the statement that contains position pos (scanning backwards)."""
    d = 0
    k = pos - 1
    while k >= 0:
        if m[k]:
            c = body[k]
            if c in ')]':
                d += 1
            elif c in '([':
                if d == 0:
                    return k + 1
                d -= 1
            elif c == '}':
                if d == 0:
                    # a block that ended before our statement?  yes unless followed by . ? or an operator
                    nxt = body[k + 1:pos].lstrip()
                    if nxt[:1] in ('.', '?') or nxt.startswith('else'):
                        d += 1
                    else:
                        return k + 1
                else:
                    d += 1
            elif c == '{':
                if d == 0:
                    return k + 1
                d -= 1
            elif c == ';' and d == 0:
                return k + 1
            elif c == ',' and d == 0 and False:
                return k + 1
        k -= 1
    return 0


def stmt_end(body, m, pos):
    """index just after the ';' terminating the statement containing pos; error when it is a tail expression."""
    d = 0
    k = pos
    n = len(body)
    while k < n:
        if m[k]:
            c = body[k]
            if c in '([{':
                k = match_close(body, m, k) + 1
                # a block-like statement (`if .. {}` / `match .. {}`) may end here without ';'
                continue
            if c in ')]}':
                raise GenError('"at after" anchor is inside a tail expression')
            if c == ';':
                return k + 1
        k += 1
    raise GenError('"at after": no statement end')


def apply_cb2loop(body, rule, rx, seqcall, counts):
    """RECV.method(ARGS..., [&mut] |PARAMS| BODY)[;]  ->  sequence loop (rule R2).
    rx matches the text from the receiver up to and including the '(' of the call."""
    m = code_mask(body)
    hits = [h for h in re.finditer(rx, body) if m[h.start()]]
    if len(hits) != 1:
        raise GenError('cb2loop %s /%s/: %d matches (need 1)' % (rule, rx, len(hits)))
    h = hits[0]
    op = h.end() - 1
    assert body[op] == '(', 'cb2loop regex must end at the opening parenthesis'
    cl = match_close(body, m, op)
    args = body[op + 1:cl]
    am = code_mask(args)
    # closure = last argument: find '|' at depth 0
    k = 0
    bar = None
    while k < len(args):
        if am[k]:
            c = args[k]
            if c in '([{':
                k = match_close(args, am, k) + 1
                continue
            if c == '|':
                bar = k
                break
        k += 1
    if bar is None:
        raise GenError('cb2loop: no closure argument')
    bar2 = args.index('|', bar + 1)
    params = args[bar + 1:bar2].strip()
    cbody = args[bar2 + 1:].strip()
    if cbody.endswith(','):
        cbody = cbody[:-1].strip()
    if cbody.startswith('{'):
        cm = code_mask(cbody)
        ce = match_close(cbody, cm, 0)
        if cbody[ce + 1:].strip() != '':
            raise GenError('cb2loop: trailing text after closure body')
        inner = cbody[1:ce]
    else:
        inner = cbody + ';'
    params = re.sub(r':\s*[A-Za-z_][A-Za-z0-9_<>:]*\s*$', '', params)
    end = cl + 1
    # swallow a trailing ';'
    tail = body[end:]
    sm = re.match(r'\s*;', tail)
    if sm:
        end += sm.end()
    loop = ('{ let mut __items = %s;\n while __items.len() > 0 { let %s = __items.remove(0);\n%s\n} }'
            % (seqcall, params, inner))
    counts[rule] = counts.get(rule, 0) + 1
    return body[:h.start()] + loop + body[end:]


def apply_foreach(body, rule, counts):
    """foreach!(edge of ID, DD, |edge: Edge| { BODY });  ->  the macro's own while-let loop with BODY inlined."""
    while True:
        m = code_mask(body)
        h = None
        for mt in re.finditer(r'foreach!\s*\(', body):
            if m[mt.start()]:
                h = mt
                break
        if h is None:
            break
        op = h.end() - 1
        cl = match_close(body, m, op)
        args = body[op + 1:cl]
        mm = re.match(r'\s*edge\s+of\s+(.+?),\s*([A-Za-z_][A-Za-z0-9_\.]*)\s*,\s*\|\s*edge\s*:\s*Edge\s*\|\s*\{(.*)\}\s*$', args, re.S)
        if not mm:
            raise GenError('foreach!: unexpected argument shape: ' + args[:80])
        idexpr, dd, inner = mm.group(1).strip(), mm.group(2), mm.group(3)
        end = cl + 1
        sm = re.match(r'\s*;', body[end:])
        if sm:
            end += sm.end()
        loop = ('{ let mut list = get!(node %s, %s).inbound;\n'
                'while let EdgesList::Cons{head, tail} = *get!(edgelist list, %s) {\n'
                'let edge = *get!(edge head, %s);\n'
                '{%s}\n'
                'list = tail;\n} }' % (idexpr, dd, dd, dd, inner))
        body = body[:h.start()] + loop + body[end:]
        counts[rule] = counts.get(rule, 0) + 1
    return body


def auto_invariants(body, bm, names):
    """[(name, place, offset)] for the immutable bindings `let NAME = PLACE;` of body whose NAME is listed in names."""
    res = []
    for mm in re.finditer(r'\blet\s+([a-z_][A-Za-z0-9_]*)\s*(?::[^=;]+)?=\s*([^;{}]+);', body):
        if not bm[mm.start()] or mm.group(1) not in names:
            continue
        place = mm.group(2).strip()
        while place[:1] in '&*':
            place = place[1:].strip()
        if re.match(r'^[A-Za-z_][A-Za-z0-9_]*(\s*\.\s*[A-Za-z0-9_]+)*(\s*\.\s*len\s*\(\s*\))?$', place):
            res.append((mm.group(1), place, mm.start()))
    return res


def new_let_names(cur_text, base_text):
    """names bound by an immutable simple `let` in cur_text that are bound nowhere in base_text."""
    rx = r'\blet\s+([a-z_][A-Za-z0-9_]*)\s*(?::[^=;]+)?='
    old = set(re.findall(rx, strip_comments(base_text))) | set(re.findall(r'\blet\s+mut\s+([a-z_][A-Za-z0-9_]*)', strip_comments(base_text)))
    return sorted(set(re.findall(rx, strip_comments(cur_text))) - old)


def build_fn(block, orig, canary=False, mutant=None, auto_inv=None):
    """returns (generated_text, info) for one fn block; orig = original item text from /repo."""
    info = {'rewrites': {}, 'labels': []}
    text = strip_comments(orig)
    if mutant is not None and not mutant[0].startswith('post_'):
        mname, mrx, mrepl = mutant
        text, k = re.subn(mrx, mrepl, text, count=1)
        if k != 1:
            raise GenError('mutant %s of %s: pattern /%s/ not found' % (mname, block.name, mrx))
    counts = info['rewrites']
    header, body = split_fn(text)
    full = header + BODY_MARK + body
    for rule, rx, repl, cnt in block.subs:
        full, k = re.subn(rx, repl, full)
        if cnt >= 0 and k != cnt:
            raise GenError('fn %s: sub %s /%s/ matched %d times, expected %d' % (block.name, rule, rx, k, cnt))
        counts[rule] = counts.get(rule, 0) + k
    if mutant is not None and mutant[0].startswith('post_'):
        # mutants named post_* are applied to the text after the rewrites (they target a rewritten call)
        mname, mrx, mrepl = mutant
        full, k = re.subn(mrx, mrepl, full, count=1)
        if k != 1:
            raise GenError('mutant %s of %s: pattern /%s/ not found' % (mname, block.name, mrx))
    if full.count(BODY_MARK) != 1:
        raise GenError('fn %s: a rewrite destroyed the signature/body boundary' % block.name)
    header, body = full.split(BODY_MARK, 1)
    for rule, rx, seqcall in block.cb2loop:
        body = apply_cb2loop(body, rule, rx, seqcall, counts)
    if block.foreach:
        body = apply_foreach(body, block.foreach, counts)
    # visibility is irrelevant to verification (and `pub fn` contracts may not mention private fields): dropped
    header = re.sub(r'^\s*pub(\s*\([^)]*\))?\s+', '', header)
    if block.rename:
        header = re.sub(r'\bfn\s+' + re.escape(block.name) + r'\b', 'fn ' + block.rename, header, count=1)
    if block.ret:
        header = name_return(header, block.ret)
    # ---- insertions into the body (performed right-to-left on recorded offsets) ----
    ins = []   # (offset, order, text)
    if body != ';':
        heads = loop_heads(body)
        bm = code_mask(body)
        # PROOF REPAIR (only requested by the driver after a failure on changed text, see vcheck.run_unit): for a NEW immutable
        # binding `let x = PLACE;` (PLACE = a field path, optionally ending in .len()) that precedes a loop using x, the loop gets the
        # extra invariant `x == PLACE`.  Verus checks it like any other invariant, so this can only turn a failing proof into a
        # successful one when the fact really holds (hoisted reads, introduced temporaries): it never hides a failure.
        extra = {}
        for (nm, place, pos) in auto_invariants(body, bm, auto_inv or []):
            for k, (kp, ob, cb) in enumerate(heads, 1):
                if kp > pos and re.search(r'(?<![A-Za-z0-9_])' + re.escape(nm) + r'(?![A-Za-z0-9_])', body[kp:cb]):
                    extra.setdefault(k, []).append('%s == %s' % (nm, place))
                    info.setdefault('auto_invariants', []).append('loop %d: %s == %s' % (k, nm, place))
        for k, lines in block.loops.items():
            if k < 1 or k > len(heads):
                raise GenError('fn %s: loop %d not found (%d loops)' % (block.name, k, len(heads)))
            lines = list(lines)
            if k in extra:
                for i, l in enumerate(lines):
                    mm = re.search(r'\binvariant\b', l)
                    if mm:
                        lines[i] = l[:mm.end()] + ' ' + ', '.join(extra[k]) + ',' + l[mm.end():]
                        break
                else:
                    lines.insert(0, 'invariant ' + ', '.join(extra[k]) + ',')
                del extra[k]
            ins.append((heads[k - 1][1], 0, '\n' + '\n'.join(lines) + '\n'))
        for k, invs in extra.items():
            ins.append((heads[k - 1][1], 0, '\ninvariant ' + ', '.join(invs) + ',\n'))
        for where, lines in block.at:
            # every line of a proof hint carries the marker /*@H*/ so that a failure located on it can be told apart from a
            # failure of a contract clause or of the real code (a failing hint means "the proof script does not apply")
            txt = '\n' + '\n'.join((l + ' /*@H*/') if l.strip() else l for l in lines) + '\n'
            if where == 'prologue':
                ins.append((1, 1, txt))
                continue
            if where == 'epilogue':
                # before the closing brace of the function body (functions returning unit / ending in a statement)
                end = len(body.rstrip()) - 1
                k = end - 1
                while k > 0 and (body[k].isspace() or not bm[k]):
                    k -= 1
                if k > 0 and body[k] not in ';}{':
                    # the body ends in a tail expression (`expr }`): the hint goes before that expression
                    ins.append((stmt_start(body, bm, k), 2, txt))
                else:
                    ins.append((end, 3, txt))
                continue
            mm = re.match(r'loop\s+(\d+)\s+(start|end|after)$', where)
            if mm:
                k = int(mm.group(1))
                if k < 1 or k > len(heads):
                    raise GenError('fn %s: loop %d not found' % (block.name, k))
                if mm.group(2) == 'after':
                    ins.append((heads[k - 1][2] + 1, 1, txt))       # right after the closing brace of the loop
                else:
                    ins.append((heads[k - 1][1] + 1, 1, txt) if mm.group(2) == 'start' else (heads[k - 1][2], 0, txt))
                continue
            mm = re.match(r'(before|after)\s+/((?:[^/\\]|\\.)*)/\s*(\d+)?$', where)
            if mm:
                rx = mm.group(2).replace('\\/', '/')
                j = int(mm.group(3) or 1)
                hits = [h for h in re.finditer(rx, body) if bm[h.start()]]
                if len(hits) < j:
                    raise GenError('fn %s: anchor /%s/ #%d not found' % (block.name, rx, j))
                pos = hits[j - 1].start()
                if mm.group(1) == 'before':
                    ins.append((stmt_start(body, bm, pos), 2, txt))
                else:
                    ins.append((stmt_end(body, bm, pos), 0, txt))
                continue
            mm = re.match(r'scope-end-of\s+/((?:[^/\\]|\\.)*)/\s*(\d+)?$', where)
            if mm:
                # before the closing brace of the innermost block that contains the J-th match (e.g. the scope of a lock guard)
                rx = mm.group(1).replace('\\/', '/')
                j = int(mm.group(2) or 1)
                hits = [h for h in re.finditer(rx, body) if bm[h.start()]]
                if len(hits) < j:
                    raise GenError('fn %s: anchor /%s/ #%d not found' % (block.name, rx, j))
                pos = hits[j - 1].start()
                d = 0
                k = pos - 1
                ob = None
                while k >= 0:
                    if bm[k]:
                        c = body[k]
                        if c == '}':
                            d += 1
                        elif c == '{':
                            if d == 0:
                                ob = k
                                break
                            d -= 1
                    k -= 1
                if ob is None:
                    raise GenError('fn %s: no enclosing block for anchor /%s/' % (block.name, rx))
                ins.append((match_close(body, bm, ob), 0, txt))
                continue
            raise GenError('fn %s: bad "at" position: %s' % (block.name, where))
        if canary and not block.nocanary:
            ins.append((1, 0, '\nproof { assert(false); } /*@CANARY %s prologue@*/\n' % fn_key(block)))
            for k, (kp, ob, cb) in enumerate(heads, 1):
                ins.append((ob + 1, 0, '\nproof { assert(false); } /*@CANARY %s loop%d@*/\n' % (fn_key(block), k)))
        ins.sort(key=lambda x: (x[0], x[1]))
        for off, _o, txt in reversed(ins):
            body = body[:off] + txt + body[off:]
    spec = '\n'.join(block.spec)
    out = ''
    for a in block.attrs:
        out += a + '\n'
    out += header.rstrip() + '\n'
    if spec.strip():
        out += spec + '\n'
    out += body + '\n'
    return out, info


def build_item(block, orig):
    info = {'rewrites': {}}
    text = strip_comments(orig)
    # drop attributes in front of the item and on fields (derive, builder, allow, inline)
    text = re.sub(r'#\[(derive|builder|allow|inline|doc|cfg_attr)[^\]]*\]\s*', '', text)
    for rule, rx, repl, cnt in block.subs:
        text, k = re.subn(rx, repl, text)
        if cnt >= 0 and k != cnt:
            raise GenError('item %s: sub %s /%s/ matched %d times, expected %d' % (block.name, rule, rx, k, cnt))
        info['rewrites'][rule] = info['rewrites'].get(rule, 0) + k
    out = ''
    for a in block.attrs:
        out += a + '\n'
    out += text + '\n'
    return out, info


def fn_key(b):
    c = b.container
    if c == 'top' or b.kind != 'fn':
        ty = ''
    elif ' for ' in c:
        ty = c.split(' for ')[1].strip()
    else:
        ty = c.split()[1]
    nm = b.rename or b.name
    return (ty + '::' + nm) if ty else nm


def generate(tpl_path, repo, canary=False, mutant=None, auto_inv=None):
    """returns (text, meta).  mutant = (fn_name, mutant_name) or None.  auto_inv = {fn_key: [local names]} (proof repair, see build_fn)."""
    sources, parts = parse_template(tpl_path)
    files = {}
    for a, rel in sources.items():
        p = os.path.join(repo, rel)
        if not os.path.exists(p):
            raise GenError('source file missing: ' + p)
        files[a] = SourceFile(p)
    out_lines = []
    meta = {'unit': os.path.splitext(os.path.basename(tpl_path))[0], 'functions': [], 'items': [], 'labels': {},
            'canaries': {}, 'rewrites': {}, 'sources': sources, 'mutants': []}
    for kind, payload in parts:
        if kind == 'raw':
            out_lines.append(payload)
            continue
        b = payload
        if b.alias not in files:
            raise GenError('unknown source alias ' + b.alias)
        sf = files[b.alias]
        try:
            if b.kind == 'fn':
                s, e = sf.find_fn(b.container, b.name)
            else:
                s, e = sf.find_top_item(b.container, b.name)
        except ExtractError as ex:
            raise GenError(str(ex))
        orig = sf.text[s:e]
        line_no = sf.text.count('\n', 0, s) + 1
        if b.kind == 'fn':
            mu = None
            for (mn, mrx, mrepl) in b.mutants:
                meta['mutants'].append({'fn': fn_key(b), 'name': mn})
                if mutant is not None and tuple(mutant) == (fn_key(b), mn):
                    mu = (mn, mrx, mrepl)
            gen, info = build_fn(b, orig, canary=canary, mutant=mu, auto_inv=(auto_inv or {}).get(fn_key(b)))
        else:
            gen, info = build_item(b, orig)
        start_line = len(out_lines) + 1
        gl = gen.split('\n')
        out_lines.extend(gl)
        end_line = len(out_lines)
        rec = {'name': b.rename or b.name, 'key': fn_key(b), 'orig_name': b.name, 'container': b.container, 'file': sources[b.alias], 'line': line_no,
               'sha256': sha(orig), 'gen_lines': [start_line, end_line], 'props': b.props,
               'rewrites': info['rewrites'], 'orig_loc': orig.count('\n') + 1, 'auto_invariants': info.get('auto_invariants', []),
               'no_termination_claim': any('exec_allows_no_decreases_clause' in a for a in b.attrs)}
        for r, k in info['rewrites'].items():
            meta['rewrites'][r] = meta['rewrites'].get(r, 0) + k
        (meta['functions'] if b.kind == 'fn' else meta['items']).append(rec)
    text = '\n'.join(out_lines) + '\n'
    # label / canary line maps
    for i, l in enumerate(text.split('\n'), 1):
        for lab in re.findall(r'/\*\[([A-Za-z0-9_\.\-, ]+)\]\*/', l):
            meta['labels'].setdefault(str(i), []).extend([x.strip() for x in lab.split(',')])
        if '/*@H*/' in l:
            meta.setdefault('hint_lines', []).append(i)
        mm = re.search(r'/\*@CANARY (\S+) (\S+)@\*/', l)
        if mm:
            meta['canaries'][str(i)] = [mm.group(1), mm.group(2)]
    # trusted-base scan
    tb = []
    for i, l in enumerate(text.split('\n'), 1):
        ls = strip_comments(l)
        for pat, what in ((r'\bassume_specification\b', 'assume_specification'), (r'#\[verifier::external_body\]', 'external_body'),
                          (r'\bassume\s*\(', 'assume'), (r'\badmit\s*\(', 'admit'), (r'#\[verifier::external\b', 'external'),
                          (r'\bexternal_type_specification\b', 'external_type_specification'),
                          (r'#\[verifier::exec_allows_no_decreases_clause\]', 'no_decreases')):
            if re.search(pat, ls):
                tb.append({'line': i, 'kind': what, 'text': ls.strip()[:160]})
    # name the item an external_body attribute applies to (next non-empty line), and list bodiless `proof fn`s (axioms)
    tl = text.split('\n')
    for t in tb:
        if t['kind'] in ('external_body', 'external'):
            k = t['line']
            while k < len(tl) and not strip_comments(tl[k]).strip():
                k += 1
            if k < len(tl):
                t['text'] = (t['text'] + ' ' + strip_comments(tl[k]).strip())[:200]
    code = strip_comments(text)
    for mm in re.finditer(r'\bproof fn\s+(\w+)[^{};]*;', code):
        tb.append({'line': code.count('\n', 0, mm.start()) + 1, 'kind': 'axiom (bodiless proof fn)', 'text': mm.group(1)})
    meta['trusted_scan'] = tb
    return text, meta


if __name__ == '__main__':
    import argparse
    ap = argparse.ArgumentParser()
    ap.add_argument('tpl')
    ap.add_argument('--repo', default='/repo')
    ap.add_argument('--canary', action='store_true')
    ap.add_argument('-o', default=None)
    a = ap.parse_args()
    try:
        text, meta = generate(a.tpl, a.repo, canary=a.canary)
    except GenError as ex:
        print('UNDECIDED: ' + str(ex), file=sys.stderr)
        sys.exit(2)
    if a.o:
        open(a.o, 'w').write(text)
        json.dump(meta, open(a.o + '.meta.json', 'w'), indent=1)
    else:
        sys.stdout.write(text)

//! C11 replays on the real NoDupFringe / SimpleFringe.
use ddo::*;
use std::cmp::Ordering;
use std::sync::Arc;

pub struct IdRanking;
impl StateRanking for IdRanking {
    type State = i64;
    fn compare(&self, a: &i64, b: &i64) -> Ordering { a.cmp(b) }
}

fn sp(state: i64, depth: usize, value: isize, ub: isize) -> SubProblem<i64> {
    SubProblem { state: Arc::new(state), value, ub, depth, path: vec![Decision { variable: Variable(depth), value: value }] }
}

/// args: a flat op list  `push s d v u` | `pop` | `clear`  -- replayed against a reference multiset model
/// keyed by (state, depth) with max-ub-then-value pops.  Returns true iff the real fringe agrees with the model.
pub fn replay(args: &[&str], nodup: bool) -> bool { replay_impl(args, nodup, true) }
pub fn replay_quiet(args: &[&str], nodup: bool) -> bool { replay_impl(args, nodup, false) }
fn replay_impl(args: &[&str], nodup: bool, verbose: bool) -> bool {
    let rk = IdRanking;
    let mut nd = NoDupFringe::new(MaxUB::new(&rk));
    let mut sf = SimpleFringe::new(MaxUB::new(&rk));
    // model: vec of (state, depth, value, ub, path)
    let mut model: Vec<SubProblem<i64>> = vec![];
    let mut ok = true;
    let mut i = 0;
    while i < args.len() {
        match args[i] {
            "push" => {
                let s: i64 = args[i + 1].parse().unwrap();
                let d: usize = args[i + 2].parse().unwrap();
                let v: isize = args[i + 3].parse().unwrap();
                let u: isize = args[i + 4].parse().unwrap();
                i += 5;
                let n = sp(s, d, v, u);
                if nodup {
                    nd.push(n.clone());
                    if let Some(e) = model.iter_mut().find(|e| *e.state == s && e.depth == d) {
                        if v > e.value { e.value = v; e.path = n.path.clone(); }
                        if u > e.ub { e.ub = u; }
                    } else { model.push(n); }
                } else {
                    sf.push(n.clone());
                    model.push(n);
                }
            }
            "pop" => {
                i += 1;
                let got = if nodup { nd.pop() } else { sf.pop() };
                // model pop: max by (ub, value, state)
                let best = model.iter().enumerate().max_by(|a, b| a.1.ub.cmp(&b.1.ub).then(a.1.value.cmp(&b.1.value)).then(a.1.state.cmp(&b.1.state))).map(|x| x.0);
                match (got, best) {
                    (None, None) => {}
                    (Some(g), Some(bi)) => {
                        let b = model[bi].clone();
                        if g.ub != b.ub || g.value != b.value {
                            if verbose { println!("  violated: popped (state={}, depth={}, value={}, ub={}) but the best held entry is (state={}, depth={}, value={}, ub={})",
                                     g.state, g.depth, g.value, g.ub, b.state, b.depth, b.value, b.ub); }
                            ok = false;
                        }
                        // remove the popped entry from the model (by identity state+depth+value+ub+path)
                        if let Some(k) = model.iter().position(|e| *e.state == *g.state && e.depth == g.depth && e.value == g.value && e.ub == g.ub && e.path == g.path) {
                            model.remove(k);
                        } else {
                            if verbose { println!("  violated: popped entry (state={}, depth={}, value={}, ub={}, path={:?}) is not a held sub-problem (lost/invented/mis-coalesced)", g.state, g.depth, g.value, g.ub, g.path); }
                            ok = false;
                            model.remove(bi);
                        }
                    }
                    (g, b) => { if verbose { println!("  violated: pop returned {:?} but model has {:?}", g.map(|x| *x.state), b); } ok = false; }
                }
            }
            "clear" => { i += 1; if nodup { nd.clear() } else { sf.clear() }; model.clear(); }
            other => { eprintln!("bad op {other}"); return false; }
        }
        let len = if nodup { nd.len() } else { sf.len() };
        if len != model.len() {
            if verbose { println!("  violated: len() = {} but {} sub-problems are held according to the reference model", len, model.len()); }
            ok = false;
            break;
        }
    }
    if verbose { println!("fringe replay ({}): {}", if nodup { "NoDupFringe" } else { "SimpleFringe" }, if ok { "agrees with the reference model" } else { "DISAGREES" }); }
    ok
}

/// Witness search (used after a contract of unit nodup_fringe / simple_fringe fails): random operation sequences over a small
/// alphabet, each replayed against the reference model.  args: <seed> <number of sequences> ; prints the first failing sequence.
pub fn fuzz(args: &[&str], nodup: bool) -> bool {
    let mut x: u64 = args.first().and_then(|s| s.parse::<u64>().ok()).unwrap_or(1).wrapping_mul(6364136223846793005).wrapping_add(1442695040888963407);
    let n: usize = args.get(1).and_then(|s| s.parse().ok()).unwrap_or(20000);
    let mut next = move |m: u64| { x = x.wrapping_mul(6364136223846793005).wrapping_add(1442695040888963407); (x >> 33) % m };
    for it in 0..n {
        let len = 2 + next(10) as usize;
        let mut ops: Vec<String> = vec![];
        for _ in 0..len {
            match next(10) {
                0..=5 => { ops.extend(["push".to_string(), next(3).to_string(), next(2).to_string(), next(6).to_string(), next(6).to_string()]); }
                6..=8 => ops.push("pop".to_string()),
                _ => ops.push("clear".to_string()),
            }
        }
        for _ in 0..4 { ops.push("pop".to_string()); }
        let refs: Vec<&str> = ops.iter().map(|s| s.as_str()).collect();
        // silent run first
        if !replay_quiet(&refs, nodup) {
            println!("failing operation sequence found after {} sequences:  {}", it + 1, ops.join(" "));
            replay(&refs, nodup);
            return false;
        }
    }
    println!("no failing sequence among {n} random sequences");
    true
}

"""Which units / harnesses decide which property (see DESIGN.md sections 4 and 5)."""
REPO = '/repo'

COMMON_ASSUMPTIONS = [
    'Verus 0.2026.09.13 (bundled Z3) and rustc 1.98.1 front end are sound; Kani 0.68 / CBMC 6.11 are sound',
    'vstd specifications of Vec, Option, Result, HashMap and integer operations match the real std',
    'extraction rewrites R1..R10 of DESIGN.md 2.3 preserve the semantics of the extracted text (each application is counted in the evidence)',
]

# Kani harness -> how to replay a counterexample natively: (replay case, types of the kani::any() values in order)
KANI = {
    'c17_gap_not_nan_not_negative': {'replay': ('gap', ['isize', 'isize'])},
    'c17_gap_one_when_infinite': {'replay': ('gap', ['isize', 'isize'])},
    'c17_gap_zero_iff_equal': {'replay': ('gap', ['isize', 'isize'])},
    'c17_gap_le_one_same_sign': {'replay': ('gap', ['isize', 'isize'])},
    'c17_gap_cover': {},
}

PROPS = {
    'C13': {
        'units': ['width'],
        'kani': [],
        'not_decided': ['per-layer width bound inside compile (needs the mdd units)'],
        'assumptions': [],
        'technique': 'Verus contracts on the real width-heuristic methods (extracted per run)',
        'level_text': 'Deductive proof (Verus) on the extracted real text of FixedWidth/NbUnassignedWidth/Times/DivBy::max_width: result equals a spec function, and a lemma over that spec function shows the combinators never yield 0; all inputs, no bound.',
        'level_note': 'Arithmetic failure (overflow of the product, division by zero, underflow) is a stated precondition (width_pre), not hidden; inner heuristic is an arbitrary implementation of the trait contract.',
    },
    'C17': {
        'units': [],
        'kani': ['c17_gap_not_nan_not_negative', 'c17_gap_one_when_infinite', 'c17_gap_zero_iff_equal',
                 'c17_gap_le_one_same_sign', 'c17_gap_cover'],
        'not_decided': [],
        'technique': 'Kani/CBMC complete proof of the loop-free default method Solver::gap over all (lb, ub), counterexamples replayed natively',
        'level_text': 'Complete bit-precise proof: Solver::gap (real default method, through a stub Solver) is loop-free, so CBMC over 128 fully symbolic input bits decides every clause of the statement for all pairs lb <= ub.',
        'level_note': 'Trusted: Kani 0.68/CBMC 6.11 float model; property quantifies over lb <= ub only.',
        'assumptions': ['CBMC models IEEE-754 binary32 conversion and division bit-precisely (round-to-nearest-even)',
                        'inputs range over all (lb, ub) with lb <= ub, as in the property statement'],
    },
}


NOT_APPLICABLE = {
    'C16': 'twelve whole example programs (parsers, clap, f64 bounds, per-problem admissibility theories): outside the reach of function contracts here; see DESIGN.md section 5',
    'C20': 'property about the syntax of a format!/Debug-built string: Verus has no str reasoning and Kani stubs format!; see DESIGN.md section 5',
}
for _p in ['C01','C02','C03','C04','C05','C06','C07','C08','C09','C10','C11','C12','C14','C15','C18','C19']:
    NOT_APPLICABLE.setdefault(_p, 'not built yet (deciding unit under construction; see DESIGN.md section 10)')

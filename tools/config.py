"""Which units / harnesses decide which property (see DESIGN.md sections 4 and 5)."""
REPO = '/repo'

COMMON_ASSUMPTIONS = [
    'Verus 0.2026.09.13 (bundled Z3) and rustc 1.98.1 front end are sound; Kani 0.68 / CBMC 6.11 are sound',
    'vstd specifications of Vec, Option, Result, HashMap and integer operations match the real std',
    'extraction rewrites R1..R10 of DESIGN.md 2.3 preserve the semantics of the extracted text (each application is counted in the evidence)',
]

# Kani harness -> how to replay a counterexample natively: (replay case, types of the kani::any() values in order)
KANI = {
    'c17_gap_not_nan_not_negative': {'replay': ('gap', ['isize', 'isize'])},
    'c17_gap_one_when_infinite': {'replay': ('gap', ['isize', 'isize'])},
    'c17_gap_zero_iff_equal': {'replay': ('gap', ['isize', 'isize'])},
    'c17_gap_le_one_same_sign': {'replay': ('gap', ['isize', 'isize'])},
    'c17_gap_cover': {},
    'c18_threshold_max_is_lexicographic': {},
    'c11_maxub_is_lexicographic': {},
}

# unit -> native witness search run when an obligation of that unit fails on changed code: (replay case, args)
WITNESS_SEARCH = {
    'nodup_fringe': ('nodup_fringe_fuzz', ['$SEED', 40000]),
    'simple_fringe': ('simple_fringe_fuzz', ['$SEED', 40000]),
    'cache_api': ('cache_fuzz', ['$SEED', 40000]),
    'seq_solver': ('solver_fuzz', ['$SEED', 3000]),
    'par_solver': ('solver_fuzz', ['$SEED', 250, 'par']),
    'par_owner': ('solver_fuzz', ['$SEED', 250, 'par']),
    'dominance_checker': ('dominance_fuzz', ['$SEED', 60000]),
}

# Native regression replays: the concrete witnesses of the genuine defects that were repaired (known_findings.json, 'fixed').
# They are re-run by the checks of the property concerned: a fixed entry suppresses nothing, and if the defect returns the
# replay fails on the real code and the check reports the violation with that input -- whatever the verifier can or cannot
# say about the changed text.  (case, args, what it shows)
REGRESSION_REPLAYS = {
    'C04': [('par_with_nb_threads', ['1', '3'], 'custom(.., 1).with_nb_threads(3): maximize() must return (no worker crash / lost wake-up)')],
    'C05': [('par_abort_bounds', ['2', '1', '2'], 'parallel, 2 threads, cutoff at the first poll: optimum <= best_upper_bound()'),
            ('par_abort_inflight', [], 'forced schedule: abort while a larger upper bound is in flight on another worker: optimum <= best_upper_bound()')],
    'C11': [('nodup_fringe', ['push', '7', '1', '5', '10', 'push', '7', '2', '7', '9', 'pop', 'pop'], 'equal states at different depths must not be coalesced')],
    'C17': [('gap', ['0', '0'], 'gap(0, 0) must be 0, not NaN'), ('gap', ['-5', '5'], 'gap(-5, 5) must not be 0')],
}

PROPS = {
    'C01': {
        'units': ['seq_solver'],
        'dep_units': ['nodup_fringe', 'simple_fringe', 'ranking'],
        'kani': [],
        'technique': 'Verus: search invariant + optimality theorem on the extracted real text of SequentialSolver, against trait-level contracts of diagram/fringe/cache',
        'level_text': 'Deductive proof (Verus, unbounded) about the real text of custom/initialize/get_workload/process_one_node/maybe_update_best/enqueue_cutset/abort_search/maximize: an invariant (fringe content exact and bound-valid, open_by_layer == per-depth fringe counts, lower bound attained, optimum covered by a held sub-problem) is established and preserved, and maximize() ensures is_exact ==> reported value == optimum of the abstract DP and no value <==> infeasible. Holds for every Problem, every DecisionDiagram/Fringe/WidthHeuristic/ranking satisfying the trait contracts, non-caching Cache.',
        'level_note': 'Assumed (not proved here): the DecisionDiagram::compile contract dd_post (= C06-C08 as interface; leaf-supported by the mdd units), the Fringe contract for SimpleFringe (BinaryHeap trusted), DP axioms lemma_exact_le_root/lemma_root/lemma_sol_le_root, optimum fits isize. Termination of maximize is NOT proved. Caching configurations are outside this theorem (see C09).',
        'not_decided': ['termination of maximize()', 'solvers with a pruning cache (SimpleCache): theorem stated for caches with always_explores()',
                        'rough-upper-bound and dominance pruning inside compile (behind the assumed DecisionDiagram contract)'],
        'assumptions': ['DecisionDiagram::compile satisfies dd_post (trait-level contract, assumed)', 'Problem axioms: lemma_exact_le_root, lemma_root, lemma_sol_le_root, lemma_opt_fits (bodiless proof fns)',
                        'R2: drain_cutset(callback) applies the callback once per cut-set element, in order, and does nothing else with it'],
    },
    'C02': {
        'quick_companions': [('dd_fuzz', ['$SEED', 2500], 'diagram level (bounded): best_exact_solution replays to best_exact_value, on random table DPs, 3 diagram types, widths 1..4'),
                             ('solver_fuzz', ['$SEED', 400], 'solver level (bounded): the reported solution replays to the reported value; value == lower bound; ub == lb after an uninterrupted run')],
        'units': ['seq_solver', 'par_solver', 'par_owner'],
        'kani': [],
        'technique': 'Verus: ghost invariant sol_ok (stored solution replays to exactly the stored lower bound, present iff a bound is installed) on the extracted real solver text',
        'level_text': 'Deductive proof (Verus) that every function of the sequential solver that writes best_lb/best_sol keeps: solution present <==> lower bound installed, solution value == best_lb (through the diagram contract: value and solution come from the same diagram state), Completion.best_value == best_value() == Some(best_lb) iff a solution is present, best_upper_bound == best_lower_bound after an uninterrupted run.',
        'level_note': 'Feasibility of the decisions themselves is inherited from the assumed DecisionDiagram contract (best_exact_solution replays to best_exact_value); the final sort is a trusted permutation stub (R11). Parallel solver: see C03/C05 units when built.',
        'not_decided': ['domain membership of each decision (behind the DecisionDiagram contract)', 'parallel solver part of the statement'],
        'assumptions': ['sort_unstable_by_key permutes its slice (trusted stub sort_best_sol, R11)'],
    },
    'C03': {
        'units': ['par_solver', 'par_owner'],
        'dep_units': ['nodup_fringe', 'simple_fringe', 'ranking'],
        'kani': [],
        'technique': 'Verus: rely/guarantee (Owicki-Gries) proof of the monitor invariant over the extracted real critical sections of ParallelSolver, with ghost per-worker records; lock acquisition = trusted interference step',
        'level_text': 'Deductive proof (Verus, every interleaving and every thread count >= 1, by the monitor rule): all accesses to Critical go through Mutex<Critical>, so each lock acquisition is modelled by a trusted interference step that re-establishes the monitor invariant G and the rely of the acquiring worker; every critical section (real text of best_lb, maybe_update_best, enqueue_cutset, notify_node_finished, abort_search, get_workload) is proved to re-establish G and to respect the guarantee the others rely on (never touches another worker record, best_lb monotone, abort/completion sticky). G contains the coverage invariant: every solution better than the incumbent is reachable from the fringe or from an active in-flight node (ghost records). process_one_node and the worker loop are verified against these contracts; a worker exits only when the search is complete or aborted; maximize() (owner phase, unit par_owner) ensures is_exact ==> value == optimum of the abstract DP, none iff infeasible, best_ub == best_lb.',
        'level_note': 'Trusted: R7 interference/monitor_wait stubs (the monitor rule itself; parking_lot Mutex/Condvar), R15 run_workers (thread::scope = spawn nb_threads workers and join), the DecisionDiagram contract dd_post (as in C01), Fringe contract, DP axioms, R10 counter assumptions (< 2^64 pushes / explored nodes). Claimed for non-caching solvers (explores); caching: structural safety only. Termination is C04 (partial).',
        'not_decided': ['termination (see C04)', 'caching solvers: optimality not claimed (see C09)', 'shared cache / dominance store races during compilation (behind the assumed DecisionDiagram contract and C18 atomicity assumption)'],
        'assumptions': ['monitor rule: every access to Critical happens under the mutex (Rust type system); interference by other workers = finite sequence of their critical sections'],
    },
    'C04': {
        'units': ['par_solver', 'par_owner'],
        'dep_units': [],
        'kani': [],
        'technique': 'Verus: the safety facts the termination argument rests on, as obligations of the extracted real critical sections (monitor invariant with ghost in-flight accounting)',
        'level_text': 'PARTIAL (liveness is outside this family). Deductive proof (Verus, all interleavings/thread counts) of: (a) monitor.wait is called only with an empty fringe and ongoing > 0 (precondition of the wait stub); (b) every notify_node_finished performs notify_all (ghost counter) and decrements ongoing / ongoing_by_layer exactly once, no underflow (ongoing == number of ghost in-flight records); (c) Complete is returned only when nothing is open or in progress, and then stays so (completed is sticky); (d) no worker can crash inside a critical section: every index in range, no counter under/overflow, under the invariant upper_bounds.len() == nb_threads, open/ongoing_by_layer.len() == n+1; (e) custom and with_nb_threads establish that invariant for every thread count; a worker leaves its loop only when the search is complete or aborted, and the abort path still calls notify_node_finished.',
        'level_note': 'NOT decided: that every parked worker is eventually woken and that compile (user code) returns, i.e. termination itself; fairness of the condition variable. Trusted: R7/R15 stubs, R10 counter assumptions.',
        'not_decided': ['liveness: every waiter is eventually woken; maximize() returns after finitely many steps', 'user callbacks terminate'],
        'assumptions': [],
    },
    'C05': {
        'units': ['seq_solver', 'par_solver', 'par_owner'],
        'dep_units': ['nodup_fringe', 'simple_fringe', 'ranking'],
        'kani': [],
        'technique': 'Verus: Err arm of process_one_node / abort_search / maximize contracts: best_lb <= optimum <= best_ub at every possible cut-off point',
        'level_text': 'Deductive proof (Verus): compile may fail at ANY call (Err arm), which over-approximates "cutoff fires at an arbitrary poll"; in that arm and after abort_search the lower bound is attained by a feasible solution and optimum <= best_ub; is_exact is reported iff no abort happened and then implies proved optimality.',
        'level_note': 'Parallel solver: unit par_solver proves (for every interleaving, monitor rule) that after abort_search the recorded best_ub covers every in-flight upper bound, the top of the fringe and the incumbent, and that no later critical section lowers it (S7 of the monitor invariant, guar_acq); par_owner::maximize exports optimum <= best_ub after a cutoff. Same assumed trait contracts as C01/C03.',
        'not_decided': [],
        'assumptions': [],
    },
    'C14': {
        'units': ['seq_solver', 'par_owner'],
        'dep_units': ['nodup_fringe', 'simple_fringe', 'ranking'],
        'kani': [],
        'technique': 'Verus: set_primal contract + search invariant holds from any feasible primal, on the extracted real text',
        'level_text': 'Deductive proof (Verus): set_primal replaces the incumbent iff value > best_lb; given a primal that is the value of a feasible solution the invariant of C01 holds after set_primal + initialize, hence maximize() ends with best_lb >= primal, is_exact ==> best_lb == optimum (= max(primal, optimum) since primal <= optimum).',
        'level_note': 'Sequential solver; same assumed trait contracts and non-claims as C01.',
        'not_decided': ['parallel solver', 'termination'],
        'assumptions': [],
    },
    'C19': {
        'units': ['seq_solver'],
        'dep_units': ['nodup_fringe', 'simple_fringe', 'ranking'],
        'kani': [],
        'technique': 'Verus: monotonicity obligations on get_workload / process_one_node / enqueue_cutset of the extracted real text',
        'level_text': 'Deductive proof (Verus): best_lb never decreases (maybe_update_best, set_primal, process_one_node), the bound in force at successive compile calls never increases (get_workload: popped ub == new best_ub <= old best_ub, from the fringe contract and the invariant "every held ub <= best_ub" which enqueue_cutset maintains through ub.min), and at every exposed point best_lb <= optimum <= best_ub.',
        'level_note': 'Monotonicity in the poll index additionally uses prefix determinism of the solver (no randomness on the code path), an assumption. "Eventually exact" needs termination, not proved.',
        'not_decided': ['termination ("from some index on the run is exact")', 'prefix determinism is assumed, not proved'],
        'assumptions': ['a run cut at poll k is a prefix of the run cut at poll k+1 (deterministic code path)'],
    },
    'C10': {
        'units': ['dominance_cmp', 'dominance_checker'],
        'dep_units': [],
        'kani': [],
        'technique': 'Verus: Dominance::partial_cmp / cmp default methods (real loops, any number of dimensions) and SimpleDominanceChecker::is_dominated_or_insert against a Pareto-front view',
        'level_text': 'Deductive proof (Verus, unbounded in the number of dimensions and in the query history): partial_cmp returns Greater iff a >= b in every coordinate (and value when used) with one strict, Less symmetrically, Equal iff all equal, None iff incomparable, only_val_diff exact; cmp is the first-difference lexicographic order (value first) and ranks a dominating state first; is_dominated_or_insert: dominated iff a recorded entry with the same key strictly dominates, then store unchanged and threshold == min over dominators (other.value - 1 when only the value differs), >= presented value and sound; otherwise kept(l0).push(new) with exactly the dominated-or-equal entries dropped; other keys/layers untouched; antichain invariant; lemma_front_history: for any query sequence the list is the Pareto front of everything recorded.',
        'level_note': 'Trusted: DashMap replaced by std HashMap (R9: sequential map semantics + per-key shard-lock atomicity), user Hash/Eq consistent, states with the same key have the same number of dimensions (axiom), Arc::as_ref / saturating_sub specs. NOT decided: "enabling the checker never changes the solver optimum" (whole-compile fact behind the assumed DecisionDiagram contract).',
        'not_decided': ['solver-level clause: enabling the dominance checker never changes the optimal value (needs whole-compile semantics)',
                        '_filter_with_dominance use of sort_unstable_by (mdd unit)'],
        'assumptions': ['same key => same nb_dimensions (DominanceView::lemma_same_key_same_dims, bodiless axiom)'],
    },
    'C18': {
        'units': ['cache_api', 'dominance_checker'],
        'dep_units': [],
        'kani': ['c18_threshold_max_is_lexicographic'],
        'technique': 'Verus: SimpleCache / EmptyCache / SimpleDominanceChecker real methods against ghost map models; history lemmas for arbitrary operation sequences',
        'level_text': 'Deductive proof (Verus) of the SEQUENTIAL clause for all operation histories: SimpleCache against Seq<Map<State, Threshold>>: get_threshold returns the stored entry, update_threshold stores the lexicographic maximum in (value, explored) order and touches no other key/layer, clear_layer empties exactly one layer, clear all (lemma_history: the answer is the maximum of the records since the layer was last cleared); dominance store answers as the Pareto front of everything recorded (lemma_front_history).',
        'level_note': 'The CONCURRENCY clause (linearisability under shard locks) is NOT decided: DashMap is a trusted stand-in whose entry API is assumed atomic per key; Kani has no threads and ICEs on DashMap, Verus cannot see DashMap unsafe code. Trusted: derived Ord of Threshold is lexicographic (OrdSpecImpl), R14 (&self -> &mut self for interior mutability).',
        'not_decided': ['concurrent clause: outcome equals some sequential ordering (atomicity of DashMap entry API is assumed)'],
        'assumptions': ['DashMap: entry().and_modify().or_insert() is one atomic read-modify-write per key; dominance arm runs under one shard lock'],
    },
    'C09': {
        'quick_companions': [('solver_fuzz', ['$SEED', 1500], 'solver level (bounded): caching solvers (SimpleCache, 3 diagram types, both fringes, widths 1..3) return the exhaustive optimum on random table DPs')],
        'units': ['cache_api', 'seq_solver'],
        'dep_units': [],
        'kani': [],
        'technique': 'Verus: must_explore rule, threshold store semantics, clear_layer rule of the solvers (leaf mechanisms of the cache); the global no-change theorem is NOT decided',
        'level_text': 'PARTIAL. Deductive proof (Verus) of the mechanisms named in the anchors that are within reach of function contracts: Cache::must_explore (real default method) <==> no threshold || value > theta.value || (value == theta.value && !theta.explored); SimpleCache::update_threshold keeps the lexicographic max (a stored threshold never decreases); EmptyCache never vetoes; the solvers clear cache layer d only when no open (parallel: nor in-flight) node exists at any depth <= d.',
        'level_note': 'NOT decided: the global theorem that pruning with thresholds written by earlier compilations never discards the last route to a better solution, and the theta formulas of _compute_thresholds as a relation to the value-to-go (whole-compile semantics: see DESIGN.md section 7). C01/C03 theorems are claimed for non-caching solvers only.',
        'not_decided': ['global theorem: caching solvers return the same optimum as non-caching ones', '_compute_thresholds / _filter_with_cache / _maybe_update_cache (mdd units)'],
        'assumptions': [],
    },
    'C11': {
        'units': ['nodup_fringe', 'simple_fringe', 'ranking'],
        'dep_units': [],
        'kani': ['c11_maxub_is_lexicographic'],
        'technique': 'Verus: representation invariant + abstract view of NoDupFringe (real text of all 17 functions) proved against the Fringe trait contract; MaxUB::compare proved lexicographic',
        'level_text': 'Deductive proof (Verus, all operation sequences by induction over the representation invariant wf): heap ids/pos inverse, recycle bin = dead ids, states maps exactly the live (state, depth) keys, max-heap order. push/pop/clear/len/is_empty of the real NoDupFringe meet the Fringe contract of inc_dp.vinc: pop returns a maximum of the ranking (ub first), len == number of poppable items, nothing lost or invented, coalescing only for same state AND same depth with larger value + own path + max ub. bubble_up/bubble_down terminate (decreases). MaxUB::compare is the lexicographic (ub, value, state ranking) order. SimpleFringe: delegation proved, BinaryHeap assumed.',
        'level_note': 'Trusted: user StateRanking is a total preorder (axioms), Hash/Eq of the user state consistent (obeys_key_model), Vec length <= isize::MAX/2 (allocation limit), derived Clone of SubProblem, binary_heap_plus::BinaryHeap max-heap contract (stand-in), Ordering == spec.',
        'not_decided': ['SimpleFringe: the heap order of binary_heap_plus is assumed, not proved'],
        'assumptions': ['FxHashMap replaced by std HashMap in the model (R13: the hasher is irrelevant to map semantics)', 'then_with rewritten to its documented match form (R12)'],
    },
    'C13': {
        'quick_companions': [('dd_fuzz', ['$SEED', 2500], 'diagram level (bounded): number of for_each_in_domain calls between two next_variable calls <= max_width (restricted: every layer; relaxed: layers >= 2)')],
        'units': ['width'],
        'kani': [],
        'not_decided': ['per-layer width bound inside compile (needs the mdd units)'],
        'assumptions': [],
        'technique': 'Verus contracts on the real width-heuristic methods (extracted per run)',
        'level_text': 'Deductive proof (Verus) on the extracted real text of FixedWidth/NbUnassignedWidth/Times/DivBy::max_width: result equals a spec function, and a lemma over that spec function shows the combinators never yield 0; all inputs, no bound.',
        'level_note': 'Arithmetic failure (overflow of the product, division by zero, underflow) is a stated precondition (width_pre), not hidden; inner heuristic is an arbitrary implementation of the trait contract.',
    },
    'C17': {
        'units': [],
        'kani': ['c17_gap_not_nan_not_negative', 'c17_gap_one_when_infinite', 'c17_gap_zero_iff_equal',
                 'c17_gap_le_one_same_sign', 'c17_gap_cover'],
        'not_decided': [],
        'technique': 'Kani/CBMC complete proof of the loop-free default method Solver::gap over all (lb, ub), counterexamples replayed natively',
        'level_text': 'Complete bit-precise proof: Solver::gap (real default method, through a stub Solver) is loop-free, so CBMC over 128 fully symbolic input bits decides every clause of the statement for all pairs lb <= ub.',
        'level_note': 'Trusted: Kani 0.68/CBMC 6.11 float model; property quantifies over lb <= ub only.',
        'assumptions': ['CBMC models IEEE-754 binary32 conversion and division bit-precisely (round-to-nearest-even)',
                        'inputs range over all (lb, ub) with lb <= ub, as in the property statement'],
    },
}


NOT_APPLICABLE = {
    'C16': 'twelve whole example programs (parsers, clap, f64 bounds, per-problem admissibility theories): outside the reach of function contracts here; see DESIGN.md section 5',
    'C20': 'property about the syntax of a format!/Debug-built string: Verus has no str reasoning and Kani stubs format!; see DESIGN.md section 5',
}
for _p in ['C06','C07','C08','C12','C15']:
    NOT_APPLICABLE.setdefault(_p, 'not built yet (deciding unit under construction; see DESIGN.md section 10)')

#!/bin/sh
# Re-run every registered check (quick) on the unchanged /repo tree so that the committed evidence is current.
cd "$(dirname "$0")/.." || exit 2
if [ -n "$(git -C /repo status --porcelain)" ]; then echo "/repo is not clean: refusing"; exit 2; fi
rc=0
for p in $(python3 -c "import sys; sys.path.insert(0,'tools'); from config import PROPS; print(' '.join(sorted(PROPS)))"); do
  ./check $p quick || { echo "CHECK $p FAILED on the unchanged tree"; rc=1; }
done
python3-vt - <<'PY'
import json, jsonschema, glob
sch = json.load(open('/root/.vp/EVIDENCE.schema.json'))
for f in sorted(glob.glob('evidence/*.json')):
    ev = json.load(open(f)); jsonschema.validate(ev, sch)
    c = ev['coverage']; assert c['obligations'] == c['discharged'] and c['obligations'] > 0, f
print('all evidence files valid')
PY
exit $rc

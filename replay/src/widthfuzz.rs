//! C13 witness search for the width heuristics (bounded grid, NOT a proof step): FixedWidth, NbUnassignedWidth, Times, DivBy and their
//! compositions against the arithmetic oracle max(1, ..) written with u128; only operands for which the documented arithmetic is defined
//! (no overflow, no zero divisor, no more decisions than variables) are used.  A panic on such operands is a failure.
use ddo::*;
use std::sync::Arc;

fn sp(path_len: usize) -> SubProblem<u8> {
    SubProblem { state: Arc::new(0u8), value: 0, path: (0..path_len).map(|i| Decision { variable: Variable(i), value: 0 }).collect(), ub: isize::MAX, depth: path_len }
}
pub fn fuzz(_args: &[&str]) -> bool {
    std::panic::set_hook(Box::new(|_| {}));
    let grid: Vec<usize> = vec![0, 1, 2, 3, 4, 5, 7, 10, 16, 100, 1000];
    let mut n = 0usize;
    for &w in &grid { for &plen in &[0usize, 1, 2, 5] {
        let x = sp(plen);
        macro_rules! chk { ($h:expr, $exp:expr, $what:expr) => {{
            n += 1;
            let exp: u128 = $exp;
            match std::panic::catch_unwind(std::panic::AssertUnwindSafe(|| $h.max_width(&x))) {
                Ok(r) if r as u128 == exp => {}
                Ok(r) => { println!("failing width found: {} with path length {plen}: max_width = {r}, expected {exp}", $what); println!("  violated: C13: the width heuristic does not return the documented value (a width of 0 makes the compilation loop degenerate)"); return false; }
                Err(_) => { println!("failing width found: {} with path length {plen}: max_width panicked, expected {exp}", $what); println!("  violated: C13: panic on operands for which the arithmetic is defined"); return false; }
            }
        }}; }
        chk!(FixedWidth(w), w as u128, format!("FixedWidth({w})"));
        if w >= plen { chk!(NbUnassignedWidth(w), (w - plen) as u128, format!("NbUnassignedWidth({w})")); }
        for &k in &grid {
            chk!(Times(k, FixedWidth(w)), std::cmp::max(1, k as u128 * w as u128), format!("Times({k}, FixedWidth({w}))"));
            if k > 0 { chk!(DivBy(k, FixedWidth(w)), std::cmp::max(1, w as u128 / k as u128), format!("DivBy({k}, FixedWidth({w}))")); }
            if w >= plen {
                chk!(Times(k, NbUnassignedWidth(w)), std::cmp::max(1, k as u128 * (w - plen) as u128), format!("Times({k}, NbUnassignedWidth({w}))"));
                if k > 0 { chk!(DivBy(k, NbUnassignedWidth(w)), std::cmp::max(1, (w - plen) as u128 / k as u128), format!("DivBy({k}, NbUnassignedWidth({w}))")); }
            }
            for &j in &[1usize, 2, 3] {
                if k > 0 { chk!(Times(j, DivBy(k, FixedWidth(w))), std::cmp::max(1, j as u128 * std::cmp::max(1, w as u128 / k as u128)), format!("Times({j}, DivBy({k}, FixedWidth({w})))")); }
                chk!(DivBy(j, Times(k, FixedWidth(w))), std::cmp::max(1, std::cmp::max(1, k as u128 * w as u128) / j as u128), format!("DivBy({j}, Times({k}, FixedWidth({w})))"));
            }
        }
    } }
    println!("no failing width among {n} (heuristic, sub-problem) pairs of the grid");
    true
}

#!/usr/bin/env python3
"""Regenerate MANIFEST.json from tools/config.py (claims only what is built)."""
import json, os, sys
HERE = os.path.dirname(os.path.abspath(__file__))
sys.path.insert(0, HERE)
from config import PROPS, NOT_APPLICABLE
VERIF = os.path.dirname(HERE)
checks = []
for pid in sorted(PROPS):
    c = PROPS[pid]
    checks.append({
        'property_id': pid,
        'quick_cmd': './check %s quick' % pid,
        'thorough_cmd': './check %s thorough' % pid,
        'evidence_file': '/verif/evidence/%s.json' % pid,
        'replay_cmd_template': './check replay {path}',
        'engine': 'contracts',
        'level_claimed': {'category': 'proof', 'text': c['level_text'], 'design_ref': c.get('design_ref', 'DESIGN.md section 5, ' + pid)},
        'level_note': c['level_note'],
        'technique': c['technique'],
    })
m = {
    'version': 1,
    'setup_cmd': 'sh ./setup.sh',
    'hooks': {'guard': 'none (no hook in /repo is needed: contracts live in /verif/units, harnesses use the public API through a path dependency)',
              'enable': 'n/a', 'baseline_off_cmd': 'cd /repo && cargo test --workspace --no-fail-fast --offline',
              'source_commits': [], 'add_only': True},
    'engines': [
        {'name': 'contracts', 'path': '/verif/tools/vcheck.py', 'serves_properties': sorted(PROPS),
         'kind_free_text': 'contract-based deductive verification: real functions are re-extracted from /repo on every run, contracts from /verif/units/*.vtpl are spliced in, Verus discharges every obligation; loop-free public functions are proved by Kani/CBMC over full-domain symbolic inputs; Kani counterexamples are replayed natively against the real crate'},
    ],
    'checks': checks,
    'not_applicable': [{'property_id': k, 'reason': v} for k, v in sorted(NOT_APPLICABLE.items()) if k not in PROPS],
    'notes': 'exit 2 = undecided (lost extraction anchor, unsupported construct, rlimit, tool failure): never a VIOLATION line. known_findings.json lists genuine defects (fixed / recorded).',
}
json.dump(m, open(os.path.join(VERIF, 'MANIFEST.json'), 'w'), indent=1)
print('MANIFEST.json: %d checks, %d not_applicable' % (len(checks), len(m['not_applicable'])))

//! C20 witness search / bounded companion (NOT a proof step): the real `as_graphviz` of Mdd<LEL>, Mdd<FRONTIER> and Pooled is
//! called on diagrams compiled for random table DPs (every reachable exact root of depth <= 2, the three compilation types,
//! widths 1..3, incumbents around the sub-problem optimum: this includes infeasible sub-problems and empty last layers) with
//! all 64 visualisation configurations; the returned text is parsed by a small DOT reader written for this purpose and
//! checked against the statement of C20:
//!   (a) no panic; (b) the text is a syntactically well-formed DOT digraph; (c) every node statement is unique, and the set
//!   of declared nodes depends only on show_deleted (hidden nodes = nodes of the show_deleted rendering of the same diagram);
//!   (d) every edge connects declared (or hidden-by-configuration) nodes, and its label carries a decision and a cost that are
//!   those of the model's arc between the states printed in the two node labels (exact destination), resp. whose bold marking
//!   is coherent with the printed values; (e) a terminal node is drawn iff the last layer is non-empty (observed independently
//!   through best_value()), with one arrow per declared source and the bold arrows on the maximum value.
//! Two state types are used: one whose Debug text is plain, one whose Debug text contains double quotes and a backslash.
use ddo::*;
use crate::solverfuzz::{Lcg, Table, TS, TRank, TRelax};
use std::collections::{HashMap, HashSet};
use std::sync::Arc;

// ---------------------------------------------------------------------------------------------------------------- DOT reader
#[derive(Debug, Clone, PartialEq)]
enum Tok { Id(String), Quoted(String), LBrace, RBrace, LBrack, RBrack, Semi, Comma, Eq, Arrow }
fn lex(s: &str) -> Result<Vec<Tok>, String> {
    let c: Vec<char> = s.chars().collect();
    let mut i = 0; let mut out = vec![];
    while i < c.len() {
        let ch = c[i];
        if ch.is_whitespace() { i += 1; continue; }
        match ch {
            '{' => { out.push(Tok::LBrace); i += 1; } '}' => { out.push(Tok::RBrace); i += 1; }
            '[' => { out.push(Tok::LBrack); i += 1; } ']' => { out.push(Tok::RBrack); i += 1; }
            ';' => { out.push(Tok::Semi); i += 1; } ',' => { out.push(Tok::Comma); i += 1; } '=' => { out.push(Tok::Eq); i += 1; }
            '-' if i + 1 < c.len() && c[i + 1] == '>' => { out.push(Tok::Arrow); i += 2; }
            '"' => {
                // DOT: the only escape that matters to the lexer is \" ; every other backslash sequence is kept verbatim
                let mut j = i + 1; let mut v = String::new(); let mut closed = false;
                while j < c.len() {
                    if c[j] == '\\' && j + 1 < c.len() && c[j + 1] == '"' { v.push('"'); j += 2; continue; }
                    if c[j] == '\\' && j + 1 < c.len() && c[j + 1] == '\\' { v.push('\\'); v.push('\\'); j += 2; continue; }
                    if c[j] == '"' { closed = true; break; }
                    v.push(c[j]); j += 1;
                }
                if !closed { return Err("unterminated quoted string".into()); }
                out.push(Tok::Quoted(v)); i = j + 1;
            }
            _ if ch.is_ascii_alphabetic() || ch == '_' => { let mut j = i; while j < c.len() && (c[j].is_ascii_alphanumeric() || c[j] == '_') { j += 1; } out.push(Tok::Id(c[i..j].iter().collect())); i = j; }
            _ if ch.is_ascii_digit() || ch == '-' || ch == '.' => {
                let mut j = i; if c[j] == '-' { j += 1; }
                let st = j; while j < c.len() && (c[j].is_ascii_digit() || c[j] == '.') { j += 1; }
                if j == st { return Err(format!("stray character {:?} at offset {i}", ch)); }
                // a numeral must not run into an identifier
                if j < c.len() && (c[j].is_ascii_alphabetic() || c[j] == '_') { return Err(format!("malformed numeral at offset {i}")); }
                out.push(Tok::Id(c[i..j].iter().collect())); i = j;
            }
            _ => return Err(format!("stray character {:?} at offset {i}", ch)),
        }
    }
    Ok(out)
}
#[derive(Debug, Default, Clone)]
pub struct Dot { nodes: Vec<(String, HashMap<String, String>)>, edges: Vec<(String, String, HashMap<String, String>)>, clusters: Vec<Vec<String>> }
struct P { t: Vec<Tok>, i: usize }
impl P {
    fn peek(&self) -> Option<&Tok> { self.t.get(self.i) }
    fn next(&mut self) -> Option<Tok> { let x = self.t.get(self.i).cloned(); self.i += 1; x }
    fn id(&mut self) -> Result<String, String> { match self.next() { Some(Tok::Id(s)) | Some(Tok::Quoted(s)) => Ok(s), o => Err(format!("identifier expected, found {:?}", o)) } }
    fn expect(&mut self, t: Tok) -> Result<(), String> { match self.next() { Some(ref x) if *x == t => Ok(()), o => Err(format!("{:?} expected, found {:?}", t, o)) } }
    fn attrs(&mut self) -> Result<HashMap<String, String>, String> {
        let mut m = HashMap::new();
        while self.peek() == Some(&Tok::LBrack) {
            self.next();
            loop {
                if self.peek() == Some(&Tok::RBrack) { self.next(); break; }
                let k = self.id()?; self.expect(Tok::Eq)?; let v = self.id()?;
                if m.insert(k.clone(), v).is_some() { return Err(format!("attribute {k} given twice")); }
                if matches!(self.peek(), Some(Tok::Comma) | Some(Tok::Semi)) { self.next(); }
            }
        }
        Ok(m)
    }
    /// stmt_list up to the closing brace (not consumed); `top`: node/edge statements are recorded, otherwise they are cluster members
    fn stmts(&mut self, dot: &mut Dot, cluster: Option<&mut Vec<String>>) -> Result<(), String> {
        let mut cluster = cluster;
        loop {
            match self.peek() {
                None => return Err("unexpected end of text (missing '}')".into()),
                Some(Tok::RBrace) => return Ok(()),
                Some(Tok::Semi) => { self.next(); }
                Some(Tok::Id(s)) if s == "subgraph" => {
                    if cluster.is_some() { return Err("nested subgraph".into()); }
                    self.next(); let _name = self.id()?; self.expect(Tok::LBrace)?;
                    let mut members = vec![];
                    self.stmts(dot, Some(&mut members))?;
                    self.expect(Tok::RBrace)?;
                    dot.clusters.push(members);
                }
                Some(_) => {
                    let a = self.id()?;
                    match self.peek() {
                        Some(Tok::Eq) => { self.next(); let _v = self.id()?; }
                        Some(Tok::Arrow) => { self.next(); let b = self.id()?; let at = self.attrs()?; dot.edges.push((a, b, at)); }
                        _ => { let at = self.attrs()?; match cluster.as_deref_mut() { Some(m) => { if !at.is_empty() { return Err("node with attributes inside a cluster".into()); } m.push(a) } None => dot.nodes.push((a, at)) } }
                    }
                }
            }
        }
    }
}
pub fn parse_dot(s: &str) -> Result<Dot, String> {
    let mut p = P { t: lex(s)?, i: 0 };
    match p.next() { Some(Tok::Id(ref k)) if k == "digraph" => {}, o => return Err(format!("'digraph' expected, found {:?}", o)) }
    if let Some(Tok::Id(_)) | Some(Tok::Quoted(_)) = p.peek() { p.next(); }
    p.expect(Tok::LBrace)?;
    let mut d = Dot::default();
    p.stmts(&mut d, None)?;
    p.expect(Tok::RBrace)?;
    if p.i != p.t.len() { return Err("text after the closing brace of the digraph".into()); }
    Ok(d)
}

// ------------------------------------------------------------------------------------------------------- state types, models
/// state whose Debug text contains double quotes and a backslash
#[derive(Clone, Copy, PartialEq, Eq, Hash)]
pub struct QS(pub TS);
impl std::fmt::Debug for QS { fn fmt(&self, f: &mut std::fmt::Formatter<'_>) -> std::fmt::Result { write!(f, "S(\"d{}\\s{}\")", self.0.depth, self.0.set) } }
struct QPb<'a>(&'a Table);
impl Problem for QPb<'_> {
    type State = QS;
    fn nb_variables(&self) -> usize { self.0.nb_variables() }
    fn initial_state(&self) -> QS { QS(self.0.initial_state()) }
    fn initial_value(&self) -> isize { self.0.initial_value() }
    fn transition(&self, s: &QS, d: Decision) -> QS { QS(self.0.transition(&s.0, d)) }
    fn transition_cost(&self, s: &QS, n: &QS, d: Decision) -> isize { self.0.transition_cost(&s.0, &n.0, d) }
    fn next_variable(&self, depth: usize, _: &mut dyn Iterator<Item = &QS>) -> Option<Variable> { if depth < self.0.layers { Some(Variable(depth)) } else { None } }
    fn for_each_in_domain(&self, var: Variable, s: &QS, f: &mut dyn DecisionCallback) { self.0.for_each_in_domain(var, &s.0, f) }
}
struct QRelax<'a>(TRelax<'a>);
impl Relaxation for QRelax<'_> {
    type State = QS;
    fn merge(&self, states: &mut dyn Iterator<Item = &QS>) -> QS { let v: Vec<TS> = states.map(|s| s.0).collect(); QS(self.0.merge(&mut v.iter())) }
    fn relax(&self, _s: &QS, _d: &QS, _m: &QS, _dec: Decision, cost: isize) -> isize { cost }
    fn fast_upper_bound(&self, s: &QS) -> isize { self.0.fast_upper_bound(&s.0) }
}
struct QRank;
impl StateRanking for QRank { type State = QS; fn compare(&self, a: &QS, b: &QS) -> std::cmp::Ordering { a.0.set.cmp(&b.0.set) } }

fn config(bits: u32) -> VizConfig {
    VizConfigBuilder::default().show_value(bits & 1 != 0).show_locb(bits & 2 != 0).show_rub(bits & 4 != 0).show_threshold(bits & 8 != 0)
        .show_deleted(bits & 16 != 0).group_merged(bits & 32 != 0).build().unwrap()
}
fn label_lines(l: &str) -> Vec<&str> { l.split("\\n").collect() }
fn parse_edge_label(l: &str) -> Option<(usize, isize, isize)> {
    // "(x{variable} = {value})\ncost = {cost}"
    let lines = label_lines(l);
    if lines.len() != 2 { return None; }
    let a = lines[0].strip_prefix("(x")?.strip_suffix(')')?;
    let (var, val) = a.split_once(" = ")?;
    let cost = lines[1].strip_prefix("cost = ")?;
    Some((var.parse().ok()?, val.parse().ok()?, cost.parse().ok()?))
}
fn val_of(at: &HashMap<String, String>) -> Option<isize> { label_lines(at.get("label")?).iter().find_map(|l| l.strip_prefix("val: ").and_then(|v| v.parse().ok())) }

/// checks one rendering; `all`: the rendering of the same diagram with show_deleted (None when this IS that rendering)
fn check_text(t: &Table, text: &str, bits: u32, all: Option<&Dot>, best_value: Option<isize>, state_of: &dyn Fn(&str) -> Option<TS>) -> Result<Dot, String> {
    let dot = parse_dot(text).map_err(|e| format!("not a well-formed DOT digraph: {e}"))?;
    let show_deleted = bits & 16 != 0; let show_value = bits & 1 != 0;
    let mut declared: HashMap<&str, &HashMap<String, String>> = HashMap::new();
    for (id, at) in &dot.nodes {
        if id != "terminal" && id.parse::<usize>().is_err() { return Err(format!("node statement with unexpected identifier {id}")); }
        if declared.insert(id.as_str(), at).is_some() { return Err(format!("node {id} appears {} times", dot.nodes.iter().filter(|(i, _)| i == id).count())); }
        if id != "terminal" { for k in ["shape", "style", "color", "peripheries", "group", "label"] { if !at.contains_key(k) { return Err(format!("node {id} lacks attribute {k}")); } } }
    }
    let hidden: HashSet<&str> = match all { Some(a) => a.nodes.iter().map(|(i, _)| i.as_str()).filter(|i| !declared.contains_key(i)).collect(), None => HashSet::new() };
    if let Some(a) = all {
        let aset: HashSet<&str> = a.nodes.iter().map(|(i, _)| i.as_str()).collect();
        for id in declared.keys() { if !aset.contains(id) { return Err(format!("node {id} is declared here but not when deleted nodes are shown")); } }
        if show_deleted && aset.len() != declared.len() { return Err("the set of declared nodes depends on a flag other than show_deleted".into()); }
        if !show_deleted { for h in &hidden { let at = &a.nodes.iter().find(|(i, _)| i == h).unwrap().1;
            // a node hidden by show_deleted = false is a deleted one: drawn as a square when shown
            if *h != "terminal" && at.get("shape").map(|s| s.as_str()) != Some("square") { return Err(format!("node {h} is hidden although it is not a deleted node")); } } }
    }
    let attrs_of = |id: &str| -> Option<&HashMap<String, String>> { declared.get(id).copied().or_else(|| all.and_then(|a| a.nodes.iter().find(|(i, _)| i == id).map(|(_, at)| at))) };
    let mut bold_in: HashMap<&str, usize> = HashMap::new();
    let mut term_arrows: Vec<(&str, bool)> = vec![];
    for (from, to, at) in &dot.edges {
        if !declared.contains_key(from.as_str()) && !hidden.contains(from.as_str()) { return Err(format!("edge {from} -> {to}: source is neither declared nor hidden by the configuration")); }
        if !declared.contains_key(to.as_str()) && !hidden.contains(to.as_str()) { return Err(format!("edge {from} -> {to}: destination is neither declared nor hidden by the configuration")); }
        let bold = match at.get("penwidth").map(|s| s.as_str()) { Some("3") => true, Some("1") | None => false, Some(o) => return Err(format!("edge {from} -> {to}: penwidth {o}")) };
        if to == "terminal" { term_arrows.push((from.as_str(), bold)); continue; }
        if from == "terminal" { return Err("edge leaving the terminal node".into()); }
        let (var, val, cost) = at.get("label").and_then(|l| parse_edge_label(l)).ok_or_else(|| format!("edge {from} -> {to}: label {:?} does not carry a decision and a cost", at.get("label")))?;
        let (fa, ta) = (attrs_of(from).unwrap(), attrs_of(to).unwrap());
        let fs = state_of(label_lines(&fa["label"])[0]).ok_or_else(|| format!("node {from}: label does not start with the Debug text of a state"))?;
        let ts = state_of(label_lines(&ta["label"])[0]).ok_or_else(|| format!("node {to}: label does not start with the Debug text of a state"))?;
        if var != fs.depth || val < 0 || val as usize >= 2 { return Err(format!("edge {from} -> {to}: decision x{var} = {val} is not a decision of layer {}", fs.depth)); }
        let d = Decision { variable: Variable(var), value: val };
        let mut dom = vec![]; t.for_each_in_domain(d.variable, &fs, &mut |x: Decision| dom.push(x.value));
        if !dom.contains(&val) { return Err(format!("edge {from} -> {to}: decision x{var} = {val} is not in the domain of {:?}", fs)); }
        let real = t.transition(&fs, d);
        let merged = ta.get("color").map(|c| c.as_str()) == Some("yellow");
        if ts.depth != real.depth || ts.set & real.set != real.set { return Err(format!("edge {from} -> {to}: x{var} = {val} leads from {:?} to {:?}, drawn to {:?}", fs, real, ts)); }
        if !merged && ts != real { return Err(format!("edge {from} -> {to}: destination state {:?} but the arc leads to {:?}", ts, real)); }
        if cost != t.transition_cost(&fs, &real, d) { return Err(format!("edge {from} -> {to}: cost {cost} but the arc costs {}", t.transition_cost(&fs, &real, d))); }
        if bold { *bold_in.entry(to.as_str()).or_insert(0) += 1;
            if show_value { if let (Some(vf), Some(vt)) = (val_of(fa), val_of(ta)) { if vf.saturating_add(cost) != vt { return Err(format!("edge {from} -> {to} is drawn as the best edge but {vf} + {cost} != {vt}")); } } } }
        else if show_value { if let (Some(vf), Some(vt)) = (val_of(fa), val_of(ta)) { if vf.saturating_add(cost) > vt { return Err(format!("edge {from} -> {to}: {vf} + {cost} exceeds the value {vt} of its destination")); } } }
    }
    for (n, k) in &bold_in { if *k > 1 { return Err(format!("node {n} has {k} best edges")); } }
    for c in &dot.clusters { for m in c { if m != "style" && m != "color" && !declared.contains_key(m.as_str()) { return Err(format!("cluster member {m} is not a declared node")); } } }
    // terminal
    let drawn = declared.contains_key("terminal");
    if drawn != best_value.is_some() { return Err(format!("terminal node drawn = {drawn} but the last layer is {} (best_value() = {:?})", if best_value.is_some() { "non-empty" } else { "empty" }, best_value)); }
    if !drawn && !term_arrows.is_empty() { return Err("arrow to an undeclared terminal node".into()); }
    if drawn {
        if term_arrows.is_empty() { return Err("terminal node without any arrow".into()); }
        let mut seen = HashSet::new();
        for (f, _) in &term_arrows { if !seen.insert(*f) { return Err(format!("two arrows from node {f} to the terminal")); } }
        if !term_arrows.iter().any(|(_, b)| *b) { return Err("no bold arrow to the terminal".into()); }
        if show_value {
            for (f, b) in &term_arrows { let v = val_of(attrs_of(f).unwrap()); if *b != (v == best_value) { return Err(format!("arrow {f} -> terminal: bold = {b}, value {:?}, best value {:?}", v, best_value)); } }
        }
        // the sources of the terminal arrows are the nodes of the last layer: they have the depth of a complete assignment
        for (f, _) in &term_arrows { let s = state_of(label_lines(&attrs_of(f).unwrap()["label"])[0]); if s.map(|s| s.depth) != Some(t.layers) { return Err(format!("arrow {f} -> terminal from a node of depth {:?}, the terminal layer has depth {}", s.map(|s| s.depth), t.layers)); } }
    }
    Ok(dot)
}

fn roots(t: &Table) -> Vec<(TS, isize, Vec<Decision>)> {
    let mut res = vec![(t.initial_state(), t.init, vec![])];
    let mut frontier = res.clone();
    for _ in 0..2 {
        let mut next: Vec<(TS, isize, Vec<Decision>)> = vec![];
        for (st, v, p) in &frontier { if st.depth >= t.layers { continue; }
            let s = st.set.trailing_zeros() as usize;
            for d in 0..2 { if let Some((s2, c)) = t.trans[st.depth][s][d] {
                let n = TS { depth: st.depth + 1, set: 1 << s2 };
                let mut path = p.clone(); path.push(Decision { variable: Variable(st.depth), value: d as isize });
                if let Some(e) = next.iter_mut().find(|e| e.0 == n) { if v + c > e.1 { *e = (n, v + c, path); } } else { next.push((n, v + c, path)); }
            } } }
        res.extend(next.iter().cloned()); frontier = next;
    }
    res
}

fn guarded<F: FnOnce() -> String>(f: F) -> Result<String, String> {
    std::panic::catch_unwind(std::panic::AssertUnwindSafe(f)).map_err(|e| format!("as_graphviz panicked: {}", e.downcast_ref::<String>().cloned().or_else(|| e.downcast_ref::<&str>().map(|s| s.to_string())).unwrap_or_default()))
}

macro_rules! render_all { ($t:expr, $dd:expr, $best:expr, $state_of:expr) => {{
    let mut res: Option<String> = None;
    let all = match guarded(|| $dd.as_graphviz(&config(16 | 15))).and_then(|txt| check_text($t, &txt, 16 | 15, None, $best, $state_of)) { Ok(d) => Some(d), Err(e) => { res = Some(format!("{e}  [configuration bits {}]", 16 | 15)); None } };
    if let Some(all) = all { for bits in 0..64u32 {
        if let Err(e) = guarded(|| $dd.as_graphviz(&config(bits))).and_then(|txt| check_text($t, &txt, bits, Some(&all), $best, $state_of)) {
            res = Some(format!("{e}  [configuration bits {bits}: value {} locb {} rub {} threshold {} deleted {} grouped {}]", bits & 1, bits >> 1 & 1, bits >> 2 & 1, bits >> 3 & 1, bits >> 4 & 1, bits >> 5 & 1)); break; }
    } }
    res
}}; }

/// args: <seed> <number of instances> [quoted]
pub fn fuzz(args: &[&str]) -> bool {
    let seed: u64 = args.first().and_then(|s| s.parse().ok()).unwrap_or(1);
    let n: usize = args.get(1).and_then(|s| s.parse().ok()).unwrap_or(40);
    let quoted = args.iter().any(|s| *s == "quoted");
    std::panic::set_hook(Box::new(|_| {}));
    let mut r = Lcg(seed.wrapping_mul(1000003).wrapping_add(57));
    let mut renderings = 0usize; let mut empty_last = 0usize;
    // Debug text -> state, for both state types
    let mut plain: HashMap<String, TS> = HashMap::new(); let mut quot: HashMap<String, TS> = HashMap::new();
    for depth in 0..=8 { for set in 0..8u8 { let s = TS { depth, set }; plain.insert(format!("{:?}", s), s);
        // the DOT reader undoes the escaping of '"' and keeps "\\" pairs: a faithful label shows the Debug text with its backslash doubled
        quot.insert(format!("{:?}", QS(s)).replace('\\', "\\\\"), s); } }
    let so_plain = |l: &str| plain.get(l).copied(); let so_quot = |l: &str| quot.get(l).copied();
    for it in 0..n {
        let t = Table::random(&mut r);
        let (rk, cut, dom) = (TRank, NoCutoff, EmptyDominanceChecker::default());
        let rlx = TRelax { t: &t };
        let (qpb, qrlx, qrk, qdom) = (QPb(&t), QRelax(TRelax { t: &t }), QRank, EmptyDominanceChecker::default());
        for (st, v, path) in roots(&t) {
            let so = t.hstar(st.depth, st.set.trailing_zeros() as usize).map(|x| x + v);
            let lbs: Vec<isize> = match so { Some(o) => vec![isize::MIN, o - 1, o], None => vec![isize::MIN] };
            for ct in [CompilationType::Relaxed, CompilationType::Restricted, CompilationType::Exact] { for width in 1..=3usize { for &lb in &lbs {
                let ctx = format!("{:?} width {width} lb {lb} root (depth {}, state {:?}, value {v})", ct, st.depth, st);
                let mut fail: Option<String> = None;
                if !quoted {
                    let cache = EmptyCache::new();
                    let root = SubProblem { state: Arc::new(st), value: v, path: path.clone(), ub: isize::MAX, depth: st.depth };
                    let input = CompilationInput { comp_type: ct, problem: &t, relaxation: &rlx, ranking: &rk, cutoff: &cut, max_width: width, residual: &root, best_lb: lb, cache: &cache, dominance: &dom };
                    let mut lel = DefaultMDDLEL::<TS>::new(); let mut fc = DefaultMDDFC::<TS>::new(); let mut pooled = Pooled::<TS>::new();
                    if lel.compile(&input).is_ok() { let b = lel.best_value(); if b.is_none() { empty_last += 1; } renderings += 65; fail = render_all!(&t, lel, b, &so_plain).map(|m| format!("DefaultMDDLEL: {m}")); }
                    if fail.is_none() && fc.compile(&input).is_ok() { let b = fc.best_value(); renderings += 65; fail = render_all!(&t, fc, b, &so_plain).map(|m| format!("DefaultMDDFC: {m}")); }
                    if fail.is_none() && pooled.compile(&input).is_ok() { let b = pooled.best_value(); renderings += 65; fail = render_all!(&t, pooled, b, &so_plain).map(|m| format!("Pooled: {m}")); }
                } else {
                    let cache = EmptyCache::new();
                    let root = SubProblem { state: Arc::new(QS(st)), value: v, path: path.clone(), ub: isize::MAX, depth: st.depth };
                    let input = CompilationInput { comp_type: ct, problem: &qpb, relaxation: &qrlx, ranking: &qrk, cutoff: &cut, max_width: width, residual: &root, best_lb: lb, cache: &cache, dominance: &qdom };
                    let mut lel = DefaultMDDLEL::<QS>::new(); let mut pooled = Pooled::<QS>::new();
                    if lel.compile(&input).is_ok() { let b = lel.best_value(); renderings += 65; fail = render_all!(&t, lel, b, &so_quot).map(|m| format!("DefaultMDDLEL (state type whose Debug text contains '\"' and '\\'): {m}")); }
                    if fail.is_none() && pooled.compile(&input).is_ok() { let b = pooled.best_value(); renderings += 65; fail = render_all!(&t, pooled, b, &so_quot).map(|m| format!("Pooled (state type whose Debug text contains '\"' and '\\'): {m}")); }
                }
                if let Some(m) = fail {
                    println!("failing rendering found after {} instances", it + 1);
                    println!("  violated: C20: {m}  [{ctx}]");
                    println!("  instance: {:?}", t);
                    return false;
                }
            } } }
        }
    }
    println!("no failing rendering among {renderings} renderings of diagrams compiled for {n} random instances ({empty_last} LEL diagrams with an empty last layer)");
    true
}

//! C05 / C04 replays on the real ParallelSolver.
use ddo::*;
use crate::models::*;

/// args: <nb_threads> <poll index k at which the cutoff starts firing> <max width>
/// C05: after maximize(), best_lower_bound() <= optimum <= best_upper_bound(); is_exact only if value == optimum.
pub fn replay_abort_bounds(args: &[&str]) -> bool {
    let threads: usize = args[0].parse().unwrap();
    let k: usize = args[1].parse().unwrap();
    let w: usize = args[2].parse().unwrap();
    let pb = sample_knapsack();
    let opt = pb.brute_force();
    let relax = KRelax { pb: &pb };
    let rk = KRanking;
    let width = FixedWidth(w);
    let dom = EmptyDominanceChecker::default();
    let cutoff = CutoffAtPoll::new(k);
    let mut fringe = SimpleFringe::new(MaxUB::new(&rk));
    let mut solver = ParallelSolver::<KState, DefaultMDDLEL<KState>, EmptyCache<KState>>::custom(&pb, &relax, &rk, &width, &dom, &cutoff, &mut fringe, threads);
    let c = solver.maximize();
    let (lb, ub) = (solver.best_lower_bound(), solver.best_upper_bound());
    println!("parallel(threads={threads}, cutoff at poll {k}, width {w}): is_exact={} best_value={:?} lb={lb} ub={ub} optimum={opt}", c.is_exact, c.best_value);
    let mut ok = true;
    if lb > opt { println!("  violated: best_lower_bound() > optimum"); ok = false; }
    if ub < opt { println!("  violated: best_upper_bound() = {ub} < optimum = {opt} after a cut-off"); ok = false; }
    if c.is_exact && c.best_value != Some(opt) { println!("  violated: is_exact but value != optimum"); ok = false; }
    ok
}

/// args: <construction-time nb_threads> <with_nb_threads value> ; C04: maximize() returns (no crash, no hang)
pub fn replay_with_nb_threads(args: &[&str]) -> bool {
    let t0: usize = args[0].parse().unwrap();
    let t1: usize = args[1].parse().unwrap();
    let (tx, rx) = std::sync::mpsc::channel();
    std::thread::spawn(move || {
        let pb = sample_knapsack();
        let opt = pb.brute_force();
        let relax = KRelax { pb: &pb };
        let rk = KRanking;
        let width = FixedWidth(2);
        let dom = EmptyDominanceChecker::default();
        let cutoff = NoCutoff;
        let mut fringe = SimpleFringe::new(MaxUB::new(&rk));
        let mut solver = ParallelSolver::<KState, DefaultMDDLEL<KState>, EmptyCache<KState>>::custom(&pb, &relax, &rk, &width, &dom, &cutoff, &mut fringe, t0)
            .with_nb_threads(t1);
        let c = solver.maximize();
        let _ = tx.send((c.is_exact, c.best_value, opt));
    });
    match rx.recv_timeout(std::time::Duration::from_secs(20)) {
        Ok((ex, v, opt)) => {
            println!("parallel custom({t0}).with_nb_threads({t1}): returned is_exact={ex} value={v:?} optimum={opt}");
            ex && v == Some(opt)
        }
        Err(_) => { println!("  violated: maximize() did not return within 20 s after custom({t0}).with_nb_threads({t1}) (worker crash + lost wake-up)"); false }
    }
}

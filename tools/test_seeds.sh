#!/bin/sh
# usage: tools/test_seeds.sh [seed-id ...]   Applies each stored seeded change to /repo, runs the quick check of its property,
# undoes it, and prints one line per seed: DETECTED (exit 1 + VIOLATION line) / UNDECIDED (exit 2) / MISSED (exit 0).
cd "$(dirname "$0")/.." || exit 2
if [ -n "$(git -C /repo status --porcelain)" ]; then echo "/repo is not clean: refusing"; exit 2; fi
seeds="$*"; [ -z "$seeds" ] && seeds=$(ls seeded)
for sd in $seeds; do
  prop=$(python3 -c "import json; print(json.load(open('seeded/$sd/meta.json'))['property'])" 2>/dev/null)
  [ -z "$prop" ] && { echo "$sd: no meta.json"; continue; }
  if ! python3 -c "import sys; sys.path.insert(0,'tools'); from config import PROPS; sys.exit(0 if '$prop' in PROPS else 1)"; then echo "$sd ($prop): property not claimed"; continue; fi
  git -C /repo apply "$PWD/seeded/$sd/patch.diff" 2>/dev/null || { echo "$sd ($prop): PATCH DOES NOT APPLY"; git -C /repo checkout HEAD -- .; continue; }
  out=$(timeout 900 ./check "$prop" quick 2>&1); rc=$?
  git -C /repo checkout HEAD -- .
  nv=$(echo "$out" | grep -c "^VIOLATION property=$prop")
  wi=$(echo "$out" | grep "^VIOLATION" | grep -vc "no-failing-input-found")
  if [ -n "$RECORD" ]; then echo "$out" | grep -E "^VIOLATION|^KNOWN-FINDING|failed obligation|undecided" | head -6 > /tmp/.seed_rec.$$; python3 - "$sd" "$rc" /tmp/.seed_rec.$$ <<'PYE'
import json,sys
sd,rc,f=sys.argv[1:4]; p='seeded/%s/meta.json'%sd; m=json.load(open(p))
lines=[l.strip() for l in open(f) if l.strip()]
m['detected_by']={'1':'DETECTED','2':'UNDECIDED (exit 2)','0':'MISSED (exit 0)'}.get(rc,'rc='+rc)+' by ./check %s quick: '%m['property']+' | '.join(lines)[:700]
json.dump(m,open(p,'w'),indent=1)
PYE
  rm -f /tmp/.seed_rec.$$; fi
  case $rc in 1) echo "$sd ($prop): DETECTED ($nv violation line(s), $wi with a failing input)";; 2) echo "$sd ($prop): UNDECIDED (exit 2)";; 0) echo "$sd ($prop): MISSED (exit 0)";; *) echo "$sd ($prop): rc=$rc";; esac
done
git -C /repo status --porcelain

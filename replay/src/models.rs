//! Small concrete models used by the native replays (user-side code: Problem / Relaxation / StateRanking).
use ddo::*;
use std::sync::atomic::{AtomicUsize, Ordering as AO};

#[derive(Debug, Clone, Copy, PartialEq, Eq, Hash)]
pub struct KState { pub depth: usize, pub capacity: usize }

pub struct Knapsack { pub capacity: usize, pub profit: Vec<usize>, pub weight: Vec<usize> }
impl Problem for Knapsack {
    type State = KState;
    fn nb_variables(&self) -> usize { self.profit.len() }
    fn initial_state(&self) -> KState { KState { depth: 0, capacity: self.capacity } }
    fn initial_value(&self) -> isize { 0 }
    fn transition(&self, s: &KState, d: Decision) -> KState {
        let mut r = *s; r.depth += 1;
        if d.value == 1 { r.capacity -= self.weight[d.variable.id()] }
        r
    }
    fn transition_cost(&self, _s: &KState, _n: &KState, d: Decision) -> isize { self.profit[d.variable.id()] as isize * d.value }
    fn next_variable(&self, depth: usize, _: &mut dyn Iterator<Item = &KState>) -> Option<Variable> {
        if depth < self.nb_variables() { Some(Variable(depth)) } else { None }
    }
    fn for_each_in_domain(&self, variable: Variable, s: &KState, f: &mut dyn DecisionCallback) {
        if s.capacity >= self.weight[variable.id()] { f.apply(Decision { variable, value: 1 }); }
        f.apply(Decision { variable, value: 0 });
    }
}
impl Knapsack {
    /// exhaustive optimum (oracle independent of the library)
    pub fn brute_force(&self) -> isize {
        let n = self.profit.len();
        let mut best = 0isize;
        for mask in 0..(1usize << n) {
            let (mut w, mut p) = (0usize, 0isize);
            for i in 0..n { if mask >> i & 1 == 1 { w += self.weight[i]; p += self.profit[i] as isize; } }
            if w <= self.capacity && p > best { best = p; }
        }
        best
    }
}
pub struct KRelax<'a> { pub pb: &'a Knapsack }
impl Relaxation for KRelax<'_> {
    type State = KState;
    fn merge(&self, states: &mut dyn Iterator<Item = &KState>) -> KState { states.max_by_key(|n| n.capacity).copied().unwrap() }
    fn relax(&self, _s: &KState, _d: &KState, _m: &KState, _dec: Decision, cost: isize) -> isize { cost }
    fn fast_upper_bound(&self, s: &KState) -> isize {
        let mut tot = 0; for v in s.depth..self.pb.nb_variables() { if self.pb.weight[v] <= s.capacity { tot += self.pb.profit[v]; } } tot as isize
    }
}
pub struct KRanking;
impl StateRanking for KRanking {
    type State = KState;
    fn compare(&self, a: &KState, b: &KState) -> std::cmp::Ordering { a.capacity.cmp(&b.capacity) }
}

/// cutoff that starts answering `stop` at its k-th poll (k >= 1) and keeps doing so
pub struct CutoffAtPoll { pub k: usize, pub polls: AtomicUsize }
impl CutoffAtPoll { pub fn new(k: usize) -> Self { Self { k, polls: AtomicUsize::new(0) } } }
impl Cutoff for CutoffAtPoll {
    fn must_stop(&self) -> bool { self.polls.fetch_add(1, AO::SeqCst) + 1 >= self.k }
}

pub fn sample_knapsack() -> Knapsack {
    Knapsack { capacity: 50, profit: vec![60, 100, 120, 30, 70, 45], weight: vec![10, 20, 30, 5, 25, 15] }
}
